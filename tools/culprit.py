#!/usr/bin/env python3
"""Debugging aid for an `unknown` query: drop each quantified assert in turn and report the
removals that make the query decidable (unsat) within a short timeout."""
import sys,subprocess,tempfile,concurrent.futures
src=open(sys.argv[1]).read()
tmo=sys.argv[2] if len(sys.argv)>2 else '3'
depth=0;cur='';items=[]
for ch in src:
    cur+=ch
    if ch=='(':depth+=1
    elif ch==')':
        depth-=1
        if depth==0:
            items.append(cur.strip());cur=''
qs=[i for i,it in enumerate(items) if it.startswith('(assert') and 'forall' in it and i!=max(j for j,x in enumerate(items) if x.startswith('(assert'))]
def run(skip):
    f=tempfile.NamedTemporaryFile('w',suffix='.smt2',delete=False)
    f.write('\n'.join(it for i,it in enumerate(items) if i not in skip and not it.startswith('(get-model')));f.close()
    o=subprocess.run(['z3-new','-T:'+tmo]+sys.argv[3:]+[f.name],capture_output=True,text=True).stdout.split('\n')[0]
    return o
print('baseline',run(set()))
print('no quantified facts at all:',run(set(qs)))
with concurrent.futures.ThreadPoolExecutor(16) as ex:
    res=list(ex.map(lambda i:(i,run({i})),qs))
for i,o in res:
    if o=='unsat': print('dropping makes unsat:',items[i][:300])
