#!/bin/bash
# Runs every stored seeded change against the check of the property it breaks.
cd /verif
for d in seeded/*/; do
  n=$(basename $d)
  p=$(python3 -c "import json;print(json.load(open('$d/meta.json'))['breaks_property'])" 2>/dev/null || echo ${n:0:3})
  tools/try_seed.sh $n $p 2>&1 | head -1
done
