#!/usr/bin/env python3
"""Generates /verif/MANIFEST.json from the table below (kept next to DESIGN.md section 5)."""
import json, subprocess

CLAIMS = {
 "C04": ("(*Access).CanGet is proved to grant exactly when the access answer carries no error and get==true and to return the answer's own error otherwise (any access error is a denial).",
         "5/C04"),
 "C05": ("(*Access).CanCall is proved, for all strings of any length, to grant exactly '*' or an exact entry of the comma-separated list and to return the access error (system.accessDenied when simply not granted) otherwise.",
         "5/C05"),
 "C12": ("Pattern clauses: ParseResourcePattern accepts exactly the valid patterns (for all byte strings) and ResourcePattern.Match equals the NATS wildcard semantics (* exactly one token, > one or more trailing tokens; wildcard-free patterns match exactly themselves) for all names without empty tokens; two induction lemmas about the recursive specification are machine-checked.",
         "5/C12"),
 "C14": ("The validators IsValidRID / IsValidRIDPart are proved equal to the token grammar of the statement for all byte strings (incl. invalid UTF-8); parseRID splits at the first '?'.",
         "5/C14"),
 "C15": ("Panic freedom (index, slice, nil dereference, nil map write, negative make, failed type assertion, explicit panic) of every procedure carrying a safety clause, for all inputs allowed by its requires clauses.",
         "5/C15"),
 "C17": ("errorStatus equals the fixed code-to-status table; IsDirectResponseStatus/IsValidStatus are exactly the 300-599 rule; matchesOrigins equals byte-wise equality modulo ASCII case for all strings.",
         "5/C17"),
 "C19": ("Throttle type: invariant 0<=running<=limit and queue non-empty only when saturated is preserved by Add and Done; Add starts the callback iff a slot is free and otherwise appends at the tail; Done releases FIFO; nil throttle is inert; the explicit panic is unreachable under running>0.",
         "5/C19"),
}
NOTE = ("Trusted: the VC generator (/verif/govc), the SMT solvers (an obligation is discharged when z3 4.8.12, z3 5.1.0 or cvc5 1.0 answers unsat), "
        "mathematical integers, the library contracts in /verif/lib/*.spec and every contract marked trusted (listed per run in the evidence), "
        "sequential per-procedure semantics (goroutine interleavings are not explored).")

props = [json.loads(l) for l in open('/verif/properties.jsonl')]
src = subprocess.run(['git','-C','/repo','log','--format=%h %s','8bf6b62..HEAD'],capture_output=True,text=True).stdout.strip().split('\n')
hooks = [l.split()[0] for l in src if 'verif hooks' in l]
checks = []
for pid in sorted(CLAIMS):
    text, ref = CLAIMS[pid]
    checks.append({
      "property_id": pid,
      "quick_cmd": f"bin/govc check -p {pid} -tier quick",
      "thorough_cmd": f"bin/govc check -p {pid} -tier thorough",
      "evidence_file": f"evidence/{pid}.json",
      "replay_cmd_template": "bin/govc replay {path}",
      "engine": "govc",
      "level_claimed": {"category": "proof", "text": "Deductive, unbounded (all inputs, all loop iterations): " + text + " Clauses of the statement not listed here are not decided by this check (DESIGN.md section 5).", "design_ref": "DESIGN.md " + ref},
      "level_note": NOTE,
      "technique": "contract-based deductive verification: weakest-precondition style VCs generated from the typed Go AST of /repo, //@ contracts in verif-tagged files, discharged by z3/cvc5",
    })
na = [{"property_id": p['id'], "reason": "contracts designed (DESIGN.md section 5) but not yet discharged by the engine at this commit; not claimed"} for p in props if p['id'] not in CLAIMS]
m = {
 "version": 1,
 "setup_cmd": "cd /verif/govc && GOFLAGS=-mod=mod GOPROXY=off GOSUMDB=off GOTOOLCHAIN=local go build -o ../bin/govc .",
 "hooks": {"guard": "verif", "enable": "-tags verif (files */verif_contracts.go are //go:build verif: //@ contract comments and pure specification functions only; no executable code of the gateway is touched)",
           "baseline_off_cmd": "cd /repo && go test -mod=mod -json -vet=off -count=1 -timeout 25m ./...",
           "source_commits": hooks, "add_only": True},
 "engines": [{"name": "govc", "path": "govc", "serves_properties": sorted(CLAIMS), "kind_free_text": "self-written verification-condition generator for Go (go/ast + go/types via go/packages) with Gobra-style //@ contracts, induction lemmas, replay drivers; SMT back ends z3 4.8.12, z3 5.1.0, cvc5 1.0"}],
 "checks": checks,
 "notes": "see DESIGN.md; known_findings.json lists repaired and open findings; selftest/*.json is the must-fail corpus (bin/govc selftest)",
 "not_applicable": na,
}
json.dump(m, open('/verif/MANIFEST.json','w'), indent=1)
print("claimed:", sorted(CLAIMS))
