#!/usr/bin/env python3
"""Generates /verif/MANIFEST.json from the table below (kept next to DESIGN.md section 5)."""
import json, subprocess

CLAIMS = {
 "C01": ("Per-step clauses: a collection add/remove is accepted only within bounds on a collection, yields exactly the old collection with the value inserted/removed in a fresh backing array (the old snapshot is untouched), bumps the version and stamps idx/value on the event; a rejected event changes nothing; snapshot and version are read as a pair; a get response never touches an already loaded resource and starts a newly loaded one at version 0; a change event that fails to decode yields no values. Not decided: model change merge (handleEventChange), composition over histories and schedules, legacy encodings.",
         "5/C01"),
 "C02": ("Fragment: add/remove indexes are validated against the cached collection before any subscriber sees the event, kind mismatches (add/remove on a model) are rejected; Unsend takes exactly one sent count from every sent referenced resource. Not decided: dangling-reference freedom (the collector tryDelete and the populate routines are trusted, see DESIGN 5/C02).",
         "5/C02"),
 "C13": ("handleQueryEvent: without cached queries, with a bad payload or an empty subject nothing happens and nothing is locked; otherwise the lock capacity equals the number of cached queries and exactly that many unlock promises are made (one query request to the event's subject per loaded query, one immediate unlock per query still loading) for every map order; lockEvents/enqueueUnlock arithmetic; a get response never touches an already loaded (normalised) resource. Not decided: processQueue's lock countdown, the query response closure.",
         "5/C13"),
 "C16": ("Both encoders keep the expansion path a stack: rendering a resource leaves the path exactly as found on every successful return (failed and re-entered resources are not pushed), for all graphs and value lists; EncodePOST passes the result verbatim or nothing. Not decided: equality of the body with the recursive expansion, JSON well-formedness.",
         "5/C16"),
 "C18": ("Adapter steps: SendRequest completes the callback with an error or registers it, exactly one of the two, and whatever it publishes or subscribes fits a control line (guards cover separators, size digits and the sid); onTimeout leaves a non-pending request alone and otherwise removes the entry before exactly one system.timeout callback; listener removes the pending entry before the one callback of the first non-pre-response message (no-responders -> system.notFound), pre-responses invoke nothing; Unsubscribe removes the entry; onClose invokes the handler. Assumed: nats.go/timer behaviour, c.mu serialisation. Not decided: never-twice across the real timer and reader goroutines, event order.",
         "5/C18"),
 "C20": ("newWSConn creates and registers nothing while the service is not running or is stopping; Stop does nothing unless running and not stopping, otherwise marks stopping, stops sockets then HTTP then the messaging client (call order asserted), reports the cause on the stop channel exactly once and leaves the service restartable; stopWSHandler asks every registered connection to close; handleClosedMQ stops with the cause; temporaryConn answers 503 without service traffic when no connection can be created. Not decided: timeouts, goroutine exit, process exit.",
         "5/C20"),
 "C03": ("Hold-queue clauses: a held event is processed only while no hold reason is set (unqueueEvents, for all queue contents); the connection step of Subscription.Event drops events before the resource is handed over, appends at the tail of the hold queue while any reason is set (prefix unchanged) and processes at once otherwise; the cache work queue (EventSubscription.Enqueue) appends at the tail; a reset re-fetch answer always ends the resetting state before it is processed. Not decided: end-to-end order across goroutines, processEvent itself (trusted).",
         "5/C03"),
 "C04": ("(*Access).CanGet grants exactly when the verdict has no error and get==true; the access layer hands a well-formed verdict to every waiter (Cache.Access, wsConn.Access, loadAccess) and CanGet's callback receives nil exactly for a grant; in get/subscribe/resource-response handlers resource data is released only inside closures whose creation is dominated by err==nil of that callback (closure preconditions); a verdict is cached only if it is a result or a plain denial; reaccess, token change and reset drop the cached verdict unconditionally (handleReaccess, setToken). Not decided: validity of a grant between two connection-worker steps; GetRPCResources/populate (trusted).",
         "5/C04"),
 "C05": ("(*Access).CanCall is exactly '*' or an exact list entry for all strings; wsConn.call forwards to Cache.Call only under err==nil of CanCall's verdict and with (own connection, resource name/query of the subscription, method, current token, params); AuthResource forwards without access check with the connection's own id and token; wsConn.Access passes the connection's current token; handleReaccess drops the cached verdict.",
         "5/C05"),
 "C06": ("setToken replaces token/tid and, if a token was set before, leaves every subscription's verdict dropped or its re-access pending (all map orders); reaccess defers while the queue is held; handleReaccess drops the verdict, holds the event queue before the single access request when direct subscriptions exist; a denial removes all direct subscriptions in one step with exactly one unsubscribe frame (unsubscribeDirect, validateAccess); deferred re-access runs before any held event and no held event is processed while a hold reason is set.",
         "5/C06"),
 "C07": ("Linear continuation discipline: rpc.HandleRequest replies exactly once now or hands exactly one reply-once closure to exactly one request method (and never for frames without id); every WS request handler of wsConn and every nested closure invokes or hands on its response callback exactly once on every path (GetResource, SubscribeResource, UnsubscribeResource, CallResource, AuthResource, NewResource, call, handleCallAuthResponse, handleResourceResult, CanGet, CanCall, loadAccess, OnReady, Access, Cache.Access/Call/Auth/sendRequest); the access verdict step invokes every waiting callback exactly once. Assumed: callbacks stored in pending fields are consumed exactly once (known finding F4 on dispose), MQ client invokes its callback once (C18).",
         "5/C07"),
 "C08": ("Direct-count arithmetic of addCount (limit 256), removeCount, UnsubscribeByRID (succeeds exactly when live, subscribed and count<=direct; then exactly -count; else unchanged), UnsubscribeResource's answer, HandleRequest passes only positive counts; failed get/subscribe/resource-response paths give the direct subscription back (error-path deltas of the handler closures); unsubscribeDirect zeroes the count. Not decided: success paths through event release, the collector (tryDelete trusted).",
         "5/C08"),
 "C09": ("getSubscription hands out exactly one use, subscribes to the MQ before returning when asked, and leaves no use behind on failure; sendRequest takes one use before the request and its response step releases exactly one; ResourceSubscription.Unsubscribe releases exactly the registration it removes (uses minus registered subscribers is invariant); a failed get unregisters the resource and releases exactly the waiting subscribers' uses; Cache.Subscribe adds a subscriber only after a successful subscribe. Not decided: eviction timing, gauges.",
         "5/C09"),
 "C10": ("Fragment: every access/call/auth request of a connection is issued with that connection as requester and its current token (call-site assertions in wsConn.Access, call, AuthResource); the token-reset fan-out set gains a connection in AddConn and loses it in RemoveConn; parseRID splits at the first '?'. Not decided: cid never appears in frames, event fan-out sets.",
         "5/C10"),
 "C11": ("wsConn.Enqueue refuses work exactly when disposing and then leaves the queue untouched; dispose is idempotent, marks the connection, leaves the token-reset set once, and disposes every subscription (all map orders); Subscription.Dispose is idempotent, ends with no resource/pending work/throttle and gives a loaded, not deleted resource back exactly once; Loaded gives a successfully loaded resource back exactly once when the connection refuses the work, and a disposed subscription gives it back in the queued step; the HTTP response step disposes the temporary connection on every exit.",
         "5/C11"),
 "C12": ("Patterns: ParseResourcePattern accepts exactly the valid patterns and ResourcePattern.Match equals NATS wildcard semantics for all strings (two induction lemmas machine-checked). Re-fetch: a resource that is not already resetting is marked and exactly one get request for 'get.'+name is issued (directly or via the throttle), an already resetting one is left alone; the answer ends the resetting state before processing. Not decided yet: diff correctness (processResetModel, lcs), forEachMatch.",
         "5/C12"),
 "C14": ("Validators equal the token grammar for all byte strings; rpc.HandleRequest reaches request methods only with valid resource ids (and a valid method part for call/auth), answers everything else itself; parseRID splits at the first '?'; the reset re-fetch subject is 'get.'+name; HTTP not-found answers 404. Not decided yet: apiHandler path handling, subject assembly in Cache.*",
         "5/C14"),
 "C15": ("Panic freedom (index, slice, nil dereference, nil map write, negative make, failed type assertion, explicit panic, division by zero) of every procedure carrying a safety clause, for all inputs allowed by its requires/assumes clauses.",
         "5/C15"),
 "C17": ("errorStatus and httpError equal the fixed code-to-status table; IsDirectResponseStatus/IsValidStatus are exactly the 300-599 rule; MergeHeader never changes a protected header (Content-Type, CORS allow headers, every Sec-WebSocket-*), accumulates Set-Cookie, replaces the rest, for all header maps and iteration orders; matchesOrigins equals byte-wise equality modulo ASCII case; the HTTP response step turns methodNotFound into methodNotAllowed only for PUT/DELETE/PATCH.",
         "5/C17"),
 "C19": ("Throttle type: invariant 0<=running<=limit and waiting only when saturated preserved by Add and Done; FIFO release; nil throttle inert; explicit panic unreachable under running>0. Call sites: the throttled access check and the throttled reset re-fetch call Done exactly once per answer, whatever the answer and whether or not the subscription still exists. Assumed: a started callback holds a slot (running>0) when its answer arrives.",
         "5/C19"),
}
NOTE = ("Trusted: the VC generator (/verif/govc), the SMT solvers (an obligation is discharged when z3 4.8.12, z3 5.1.0 or cvc5 1.0 answers unsat), "
        "mathematical integers, the library contracts in /verif/lib/*.spec and every contract marked trusted (listed per run in the evidence), "
        "sequential per-procedure semantics (goroutine interleavings are not explored).")

props = [json.loads(l) for l in open('/verif/properties.jsonl')]
src = subprocess.run(['git','-C','/repo','log','--format=%h %s','8bf6b62..HEAD'],capture_output=True,text=True).stdout.strip().split('\n')
hooks = [l.split()[0] for l in src if 'verif hooks' in l]
checks = []
for pid in sorted(CLAIMS):
    text, ref = CLAIMS[pid]
    checks.append({
      "property_id": pid,
      "quick_cmd": f"bin/govc check -p {pid} -tier quick",
      "thorough_cmd": f"bin/govc check -p {pid} -tier thorough",
      "evidence_file": f"evidence/{pid}.json",
      "replay_cmd_template": "bin/govc replay {path}",
      "engine": "govc",
      "level_claimed": {"category": "proof", "text": "Deductive, unbounded (all inputs, all loop iterations): " + text + " Clauses of the statement not listed here are not decided by this check (DESIGN.md section 5).", "design_ref": "DESIGN.md " + ref},
      "level_note": NOTE,
      "technique": "contract-based deductive verification: weakest-precondition style VCs generated from the typed Go AST of /repo, //@ contracts in verif-tagged files, discharged by z3/cvc5",
    })
na = [{"property_id": p['id'], "reason": "contracts designed (DESIGN.md section 5) but not yet discharged by the engine at this commit; not claimed"} for p in props if p['id'] not in CLAIMS]
m = {
 "version": 1,
 "setup_cmd": "cd /verif/govc && GOFLAGS=-mod=mod GOPROXY=off GOSUMDB=off GOTOOLCHAIN=local go build -o ../bin/govc .",
 "hooks": {"guard": "verif", "enable": "-tags verif (files */verif_contracts.go are //go:build verif: //@ contract comments and pure specification functions only; no executable code of the gateway is touched)",
           "baseline_off_cmd": "cd /repo && go test -mod=mod -json -vet=off -count=1 -timeout 25m ./...",
           "source_commits": hooks, "add_only": True},
 "engines": [{"name": "govc", "path": "govc", "serves_properties": sorted(CLAIMS), "kind_free_text": "self-written verification-condition generator for Go (go/ast + go/types via go/packages) with Gobra-style //@ contracts, induction lemmas, replay drivers; SMT back ends z3 4.8.12, z3 5.1.0, cvc5 1.0"}],
 "checks": checks,
 "notes": "see DESIGN.md; known_findings.json lists repaired and open findings; selftest/*.json is the must-fail corpus (bin/govc selftest)",
 "not_applicable": na,
}
json.dump(m, open('/verif/MANIFEST.json','w'), indent=1)
print("claimed:", sorted(CLAIMS))
