#!/usr/bin/env python3
"""Print an unsat core of a govc query (debugging aid): names each top-level assert."""
import sys,re,subprocess,tempfile
src=open(sys.argv[1]).read()
out=[];n=0;names={}
# split top-level s-expressions
depth=0;cur='';items=[]
for ch in src:
    cur+=ch
    if ch=='(':depth+=1
    elif ch==')':
        depth-=1
        if depth==0:
            items.append(cur.strip());cur=''
res=['(set-option :produce-unsat-cores true)']
for it in items:
    if it.startswith('(assert '):
        body=it[len('(assert '):-1]
        n+=1;nm='a%d'%n;names[nm]=body
        res.append('(assert (! %s :named %s))'%(body,nm))
    elif it.startswith('(get-model') or it.startswith('(set-option :produce-models'):
        continue
    else:
        res.append(it)
        if it.startswith('(check-sat'):
            res.append('(get-unsat-core)')
f=tempfile.NamedTemporaryFile('w',suffix='.smt2',delete=False);f.write('\n'.join(res));f.close()
o=subprocess.run(['z3-new','-T:30',f.name],capture_output=True,text=True).stdout
print(o.split('\n')[0])
for nm in re.findall(r'a\d+',o):
    print(nm,':',names[nm][:400])
