#!/bin/bash
# usage: confirm_seed.sh <ID> <worktree> <run-pattern>
# Confirms a seeded change in its scratch worktree and stores it under /verif/seeded/<name>.
set -u
export GOFLAGS=-mod=mod GOPROXY=off GOSUMDB=off GOTOOLCHAIN=local
ID=$1; WT=$2; PAT=$3; NAME=${4:-$ID}; PKG=${5:-./test}
cd $WT || exit 2
demo=$(git status --short | grep '^??' | grep '_test.go$' | grep -v SEED | awk '{print $2}' | head -1)
[ -z "$demo" ] && { echo "no demo file"; exit 2; }
git diff --quiet && { echo "change not applied"; exit 2; }
git diff -- server nats > /tmp/seed_$NAME.diff
# (b) demo with change -> must fail
go test -count=1 $PKG -run "$PAT" > /tmp/seed_$NAME.with.log 2>&1; with=$?
# (a) suite with change, demo skipped -> must pass
go test -count=1 -skip "$PAT" $(go list ./... 2>/dev/null | grep -v /SEED) > /tmp/seed_$NAME.suite.log 2>&1; suite=$?
# (c) demo without change -> must pass
git apply -R /tmp/seed_$NAME.diff
go test -count=1 $PKG -run "$PAT" > /tmp/seed_$NAME.without.log 2>&1; without=$?
git apply /tmp/seed_$NAME.diff
echo "$NAME: demo-with-change exit=$with (want !=0)  suite-with-change exit=$suite (want 0)  demo-without exit=$without (want 0)"
if [ $with -ne 0 ] && [ $suite -eq 0 ] && [ $without -eq 0 ]; then
  mkdir -p /verif/seeded/$NAME
  cp /tmp/seed_$NAME.diff /verif/seeded/$NAME/patch.diff
  cp $demo /verif/seeded/$NAME/$(basename $demo).txt
  cp SEED/notes.md /verif/seeded/$NAME/notes.md 2>/dev/null
  echo "$demo|$PAT|$PKG" > /verif/seeded/$NAME/.demo
  echo "  stored in /verif/seeded/$NAME"
else
  echo "  NOT CONFIRMED"; tail -5 /tmp/seed_$NAME.suite.log
fi
