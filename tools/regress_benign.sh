#!/bin/bash
# Runs the quick checks against every stored property-preserving change (benign/*/patch.diff).
# Each must stay silent: exit 0 and no VIOLATION line. usage: regress_benign.sh [properties...]
cd /verif
PROPS=${@:-$(seq -f "C%02g" 1 20)}
rc=0
for d in benign/*/; do
  n=$(basename $d)
  git -C /repo diff --quiet || { echo "/repo not clean"; exit 2; }
  git -C /repo apply /verif/$d/patch.diff || { echo "benign $n: patch does not apply"; rc=2; continue; }
  for P in $PROPS; do
    out=$(bin/govc check -p $P -no-evidence 2>&1); e=$?
    v=$(echo "$out" | grep -c '^VIOLATION')
    if [ $e -ne 0 ] || [ $v -ne 0 ]; then echo "FALSE-ALARM benign $n vs $P: exit=$e"; echo "$out" | grep "^failed obligation\|^VIOLATION" | head -4 | sed 's/^/    /'; rc=1; fi
  done
  git -C /repo checkout -- .
  echo "benign $n: done"
done
exit $rc
