#!/bin/bash
# usage: reconfirm_seed.sh <name>...   re-confirms stored (rebased) seeds in a scratch worktree of /repo HEAD
export GOFLAGS=-mod=mod GOPROXY=off GOSUMDB=off GOTOOLCHAIN=local
WT=$(mktemp -d /tmp/reconf.XXXX); rmdir $WT
git -C /repo worktree add --detach $WT HEAD >/dev/null 2>&1 || exit 2
trap 'git -C /repo worktree remove --force $WT' EXIT
cd $WT
for n in "$@"; do
  d=/verif/seeded/$n
  IFS='|' read demo pat pkg < $d/.demo
  git apply $d/patch.diff || { echo "$n: NOAPPLY"; continue; }
  cp $d/$(basename $demo).txt $demo
  go test -count=1 $pkg -run "$pat" >/dev/null 2>&1; with=$?
  go test -count=1 -skip "$pat" ./... >/tmp/reconf_$n.suite.log 2>&1; suite=$?
  git apply -R $d/patch.diff
  go test -count=1 $pkg -run "$pat" >/dev/null 2>&1; without=$?
  rm -f $demo
  echo "$n: demo-with=$with (want !=0) suite-with=$suite (want 0) demo-without=$without (want 0)"
done
