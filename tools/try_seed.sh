#!/bin/bash
# usage: try_seed.sh <seed-dir-name> <property> [more properties...]
# Applies a seeded change to /repo, runs the quick checks, and undoes it straight afterwards.
NAME=$1; shift
cd /verif
git -C /repo diff --quiet || { echo "/repo not clean"; exit 2; }
git -C /repo apply /verif/seeded/$NAME/patch.diff || { echo "patch does not apply"; exit 2; }
for P in "$@"; do
  out=$(bin/govc check -p $P -no-evidence 2>&1); rc=$?
  echo "seed $NAME vs $P: exit=$rc  $(echo "$out" | grep -c '^VIOLATION') violation line(s)"
  echo "$out" | grep "^failed obligation\|^engine:\|^VIOLATION" | head -6 | sed 's/^/    /'
done
git -C /repo checkout -- .
