package test

import (
	"encoding/json"
	"fmt"
	"testing"
	"time"

	"github.com/resgateio/resgate/server"
)

// Scenario for obligation server.(*wsConn).Access:callsite[c.serv.cache.Access#1].assert (C11):
// after a connection has closed, no access request may be issued on its behalf. Two connections
// subscribe to the same resource; a system reset of access with resetThrottle=1 sends the access
// request of one of them and holds the other in the throttle; the held connection disconnects;
// the first request is answered, which releases the throttle slot. An access request carrying
// the closed connection's id is a failure.
func TestReplay_NoAccessRequestAfterDisconnect(t *testing.T) {
	cases := 0
	runTest(t, func(s *Session) {
		cases++
		c1 := s.Connect()
		cid1 := subscribeToTestModel(t, s, c1)
		c2 := s.Connect()
		cid2 := subscribeToCachedResource(t, s, c2, "test.model")
		conns := map[string]*Conn{cid1: c1, cid2: c2}

		s.SystemEvent("reset", json.RawMessage(`{"access":["test.>"]}`))
		req := s.GetRequest(t).AssertSubject(t, "access.test.model")
		firstCID := req.PathPayload(t, "cid").(string)
		delete(conns, firstCID)
		var held *Conn
		var heldCID string
		for cid, c := range conns {
			held, heldCID = c, cid
		}
		// the held connection closes while its access check waits in the throttle
		held.Disconnect()
		// give the gateway time to dispose the connection
		time.Sleep(50 * time.Millisecond)
		// the first request is answered: the throttle slot is released
		req.RespondSuccess(json.RawMessage(`{"get":true}`))

		// any request now issued for the closed connection is a violation
		select {
		case r := <-s.NATSTestClient.reqs:
			var p struct {
				CID string `json:"cid"`
			}
			json.Unmarshal(r.RawPayload, &p)
			if p.CID == heldCID {
				b, _ := json.Marshal(map[string]interface{}{
					"scenario": "resetThrottle=1; two connections subscribed to test.model; system.reset access; the connection held in the throttle disconnects; the outstanding access request is answered",
					"expected": "no request on behalf of the closed connection", "got_subject": r.Subject, "got_cid": p.CID,
				})
				fmt.Printf("REPLAY-FAIL %s\n", b)
				t.Errorf("access request issued for a closed connection: %s", r.Subject)
			}
		case <-time.After(300 * time.Millisecond):
		}
	}, func(c *server.Config) {
		c.ResetThrottle = 1
	})
	fmt.Printf("REPLAY-CASES %d\n", cases)
}
