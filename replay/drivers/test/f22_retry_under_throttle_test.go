package test

import (
	"encoding/json"
	"fmt"
	"testing"
	"time"

	"github.com/resgateio/resgate/server"
)

// Replay driver for obligation server.(*Subscription).retryStaleAccess (C19): the access
// request that replaces a stale answer after a throttled system reset is a re-access request
// of that reset and must be governed by its throttle. resetThrottle=1, two subscribed
// resources, two overlapping resets: at no time may two re-access requests of the second reset
// be outstanding.
func TestReplay_RetriedAccessCheckStaysUnderResetThrottle(t *testing.T) {
	fmt.Printf("REPLAY-CASES 1\n")
	defer func() {
		if t.Failed() {
			fmt.Printf("REPLAY-FAIL {\"scenario\":\"resetThrottle=1; test.model.1 and test.model.2 subscribed; system.reset access test.> twice, the second while the first check is unanswered; the checks of the first reset are answered\",\"expected\":\"one re-access request of the second reset outstanding at a time\",\"got\":\"two outstanding\"}\n")
		}
	}()
	grant := json.RawMessage(`{"get":true}`)
	runTest(t, func(s *Session) {
		c := s.Connect()
		for i := 1; i <= 2; i++ {
			creq := c.Request(fmt.Sprintf("subscribe.test.model.%d", i), nil)
			mreqs := s.GetParallelRequests(t, 2)
			mreqs.GetRequest(t, fmt.Sprintf("access.test.model.%d", i)).RespondSuccess(grant)
			mreqs.GetRequest(t, fmt.Sprintf("get.test.model.%d", i)).RespondSuccess(json.RawMessage(fmt.Sprintf(`{"model":{"id":%d}}`, i)))
			creq.GetResponse(t)
		}
		other := map[string]string{"access.test.model.1": "access.test.model.2", "access.test.model.2": "access.test.model.1"}

		// First reset: one check outstanding, the other waits for the slot
		s.SystemEvent("reset", json.RawMessage(`{"access":["test.>"]}`))
		x1 := s.GetRequest(t)
		x, y := x1.Subject, other[x1.Subject]
		if y == "" {
			t.Fatalf("unexpected request %s", x)
		}
		// Second reset while the first check is unanswered
		s.SystemEvent("reset", json.RawMessage(`{"access":["test.>"]}`))
		c.AssertNoNATSRequest(t, "test.model.1")
		c.AssertNoNATSRequest(t, "test.model.2")

		// The answer was requested before the second reset: it releases the
		// waiting check of the first reset, and is itself requested again as
		// a check of the second reset.
		x1.RespondSuccess(grant)
		mreqs := s.GetParallelRequests(t, 2)
		y1 := mreqs.GetRequest(t, y)
		x2 := mreqs.GetRequest(t, x)
		// So was this one. Its replacement is a check of the second reset,
		// whose only slot is taken by x2.
		y1.RespondSuccess(grant)
		select {
		case r := <-s.NATSTestClient.reqs:
			t.Fatalf("request %s sent while %s, of the same reset, is unanswered", r.Subject, x2.Subject)
		case <-time.After(100 * time.Millisecond):
		}
		// All checks are eventually sent, one at a time.
		x2.RespondSuccess(grant)
		for i := 0; i < 3; i++ {
			req := s.GetRequest(t)
			c.AssertNoNATSRequest(t, "test.model.1")
			req.RespondSuccess(grant)
		}
		c.AssertNoNATSRequest(t, "test.model.1")
	}, func(c *server.Config) {
		c.ResetThrottle = 1
	})
}
