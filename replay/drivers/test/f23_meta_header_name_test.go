package test

import (
	"fmt"
	"testing"

	"github.com/resgateio/resgate/server"
)

// Replay driver for obligation codec.MergeHeader:post[1] (C17): a meta header whose name is not
// a well-formed field name must not reach the response of a WebSocket upgrade, where names are
// written verbatim: a name embedding CR LF and a protected name would add that protected header.
func TestReplay_MetaHeaderNameSmugglesProtectedHeader(t *testing.T) {
	fmt.Printf("REPLAY-CASES 1\n")
	runTest(t, func(s *Session) {
		authDone := make(chan struct{})
		logt := &LogTesting{NoPanic: true}
		go func() {
			defer close(authDone)
			defer logt.Defer()
			req := s.GetRequest(logt)
			req.AssertSubject(logt, "auth.vault.method")
			req.RespondRaw([]byte(`{"result":null,"meta":{"header":{"X-Foo: bar\r\nSec-WebSocket-Protocol":["injected"],"X-Bar: baz\r\nAccess-Control-Allow-Origin":["http://evil.example"]}}}`))
		}()

		_, r, _ := s.ConnectWithResponse()
		<-authDone
		if r == nil {
			return
		}
		got := ""
		if v := r.Header.Values("Sec-Websocket-Protocol"); len(v) > 0 {
			got += fmt.Sprintf("Sec-WebSocket-Protocol: %q ", v)
		}
		if v := r.Header.Values("Access-Control-Allow-Origin"); len(v) > 0 {
			got += fmt.Sprintf("Access-Control-Allow-Origin: %q", v)
		}
		if got != "" {
			fmt.Printf("REPLAY-FAIL {\"scenario\":\"wsHeaderAuth answer with meta header names 'X-Foo: bar\\\\r\\\\nSec-WebSocket-Protocol' and 'X-Bar: baz\\\\r\\\\nAccess-Control-Allow-Origin'\",\"expected\":\"neither protected header in the 101 response\",\"got\":%q}\n", got)
			t.Errorf("protected headers set from meta: %s", got)
		}
	}, func(cfg *server.Config) {
		wsHeaderAuth := "vault.method"
		cfg.WSHeaderAuth = &wsHeaderAuth
	})
}
