package test

import (
	"encoding/json"
	"fmt"
	"testing"
	"time"

	"github.com/resgateio/resgate/server"
)

// Replay driver for obligation rescache.(*ResourceSubscription).handleResetResource (C09): the
// re-fetch of a system reset is a user of the cache entry until it is answered. resetThrottle=1,
// two resources reset: one get is sent, the other waits; the last client of the waiting resource
// unsubscribes. When the waiting get is finally sent, the gateway must still hold the event
// subscription of that resource.
func TestReplay_ResetGetKeepsEventSubscription(t *testing.T) {
	fmt.Printf("REPLAY-CASES 1\n")
	runTest(t, func(s *Session) {
		data := map[string]string{
			"test.model":      `{"model":` + resourceData("test.model") + `}`,
			"test.collection": `{"collection":` + resourceData("test.collection") + `}`,
		}
		c := s.Connect()
		subscribeToTestModel(t, s, c)
		subscribeToTestCollection(t, s, c)

		s.SystemEvent("reset", json.RawMessage(`{"resources":["test.>"]}`))
		first := s.GetRequest(t)
		x := first.Subject[len("get."):]
		y := "test.model"
		if x == y {
			y = "test.collection"
		}
		time.Sleep(50 * time.Millisecond)

		// The last client of the waiting resource leaves
		c.Request("unsubscribe."+y, nil).GetResponse(t)
		time.Sleep(100 * time.Millisecond)

		first.RespondSuccess(json.RawMessage(data[x]))
		select {
		case req := <-s.NATSTestClient.reqs:
			s.NATSTestClient.mu.Lock()
			_, held := s.NATSTestClient.subs["event."+y]
			s.NATSTestClient.mu.Unlock()
			if !held {
				out, _ := json.Marshal(map[string]string{
					"scenario": "resetThrottle=1; test.model and test.collection subscribed; system.reset resources test.>; the last client of the resource whose get waits in the throttle unsubscribes; the first get is answered",
					"expected": "the waiting get is sent under a held event subscription (the re-fetch keeps the entry)", "got": "request " + req.Subject + " sent after event." + y + " had been unsubscribed"})
				fmt.Printf("REPLAY-FAIL %s\n", out)
				t.Errorf("request %s sent while no subscription for event.%s is held", req.Subject, y)
			}
			req.RespondSuccess(json.RawMessage(data[y]))
		case <-time.After(time.Second):
			t.Errorf("the waiting get of the reset was never sent")
		}
		// with the answer the last user is gone and the entry is evicted
		s.AssertUnsubscribe(y)
	}, func(cfg *server.Config) {
		cfg.NoUnsubscribeDelay = true
		cfg.ResetThrottle = 1
	})
}
