package test

import (
	"encoding/json"
	"fmt"
	"testing"
)

// Replay driver for obligation server.(*Subscription).Dispose:callsite[s.unsubscribeRefs#1] (C02).
func TestReplay_DeletedParentGivesReferencesBackAsSent(t *testing.T) {
	fmt.Printf("REPLAY-CASES 1\n")
	runTest(t, func(s *Session) {
		model := resourceData("test.model")
		p1 := `{"name":"p1","child":{"rid":"test.model"}}`
		p2 := `{"name":"p2","child":{"rid":"test.model"}}`
		delayed := `{"name":"delayed"}`
		p3 := `{"name":"p3","child":{"rid":"test.model"},"delayed":{"rid":"test.model.delayed"}}`

		c := s.Connect()

		// Subscribe to p1 -> test.model
		creq := c.Request("subscribe.test.model.p1", nil)
		mreqs := s.GetParallelRequests(t, 2)
		mreqs.GetRequest(t, "access.test.model.p1").RespondSuccess(json.RawMessage(`{"get":true}`))
		mreqs.GetRequest(t, "get.test.model.p1").RespondSuccess(json.RawMessage(`{"model":` + p1 + `}`))
		s.GetRequest(t).AssertSubject(t, "get.test.model").RespondSuccess(json.RawMessage(`{"model":` + model + `}`))
		creq.GetResponse(t).AssertResult(t, json.RawMessage(`{"models":{"test.model":`+model+`,"test.model.p1":`+p1+`}}`))

		// Subscribe to p2 -> test.model
		creq = c.Request("subscribe.test.model.p2", nil)
		mreqs = s.GetParallelRequests(t, 2)
		mreqs.GetRequest(t, "access.test.model.p2").RespondSuccess(json.RawMessage(`{"get":true}`))
		mreqs.GetRequest(t, "get.test.model.p2").RespondSuccess(json.RawMessage(`{"model":` + p2 + `}`))
		creq.GetResponse(t).AssertResult(t, json.RawMessage(`{"models":{"test.model.p2":`+p2+`}}`))

		// Delete p1
		s.ResourceEvent("test.model.p1", "delete", nil)
		c.GetEvent(t).Equals(t, "test.model.p1.delete", nil)
		c.GetEvent(t).Equals(t, "test.model.p1.unsubscribe", mock.UnsubscribeReasonDeleted)

		// Subscribe to p3 -> test.model, test.model.delayed (delayed)
		creq = c.Request("subscribe.test.model.p3", nil)
		mreqs = s.GetParallelRequests(t, 2)
		mreqs.GetRequest(t, "access.test.model.p3").RespondSuccess(json.RawMessage(`{"get":true}`))
		mreqs.GetRequest(t, "get.test.model.p3").RespondSuccess(json.RawMessage(`{"model":` + p3 + `}`))
		mreqdelayed := s.GetRequest(t).AssertSubject(t, "get.test.model.delayed")

		// Unsubscribe p2; the client now drops test.model.
		c.Request("unsubscribe.test.model.p2", nil).GetResponse(t)

		// Respond to delayed
		mreqdelayed.RespondSuccess(json.RawMessage(`{"model":` + delayed + `}`))

		// The response must include test.model
		resp := creq.GetResponse(t)
		var res struct {
			Models map[string]json.RawMessage `json:"models"`
		}
		b, _ := json.Marshal(resp.Result)
		json.Unmarshal(b, &res)
		if _, ok := res.Models["test.model"]; !ok {
			out, _ := json.Marshal(map[string]string{
				"scenario": "p1->test.model and p2->test.model sent; delete event on p1; subscribe p3->test.model (+ a slow child); unsubscribe p2 (the client drops test.model); the slow child arrives",
				"expected": "the response of p3 carries test.model", "got": string(b)})
			fmt.Printf("REPLAY-FAIL %s\n", out)
			t.Errorf("test.model is missing in %s", b)
		}
	})
}
