package test

import (
	"encoding/json"
	"fmt"
	"testing"
	"time"
)

// Replay driver for obligation server.(*wsConn).removeCount (C08): the number of direct
// subscriptions never goes below zero. test.model is held directly and through
// test.model.parent; a token change puts its re-access check in flight; the client subscribes
// test.model a second time (counted, waiting for the same answer); the answer is a denial: the
// re-access removes all direct subscriptions (2), and the failing second subscribe gives back one
// more. After access is granted again, the client subscribes once - and must be able to
// unsubscribe once.
func TestReplay_DirectCountBelowZero(t *testing.T) {
	fmt.Printf("REPLAY-CASES 1\n")
	runTest(t, func(s *Session) {
		c := s.Connect()
		cid := subscribeToTestModelParent(t, s, c, false)
		// Direct subscription on the child, which the client already holds
		creq := c.Request("subscribe.test.model", nil)
		s.GetRequest(t).AssertSubject(t, "access.test.model").RespondSuccess(json.RawMessage(`{"get":true}`))
		creq.GetResponse(t)

		s.ConnEvent(cid, "token", json.RawMessage(`{"token":{"user":"a"}}`))
		s.ConnEvent(cid, "token", json.RawMessage(`{"token":{"user":"b"}}`))
		mreqs := s.GetParallelRequests(t, 2)
		mreqs.GetRequest(t, "access.test.model.parent").RespondSuccess(json.RawMessage(`{"get":true}`))
		areq := mreqs.GetRequest(t, "access.test.model")

		// Second subscribe while the re-access check is in flight
		creq2 := c.Request("subscribe.test.model", nil)
		c.AssertNoNATSRequest(t, "test.model.parent")
		areq.RespondSuccess(json.RawMessage(`{"get":false}`))
		c.GetEvent(t).AssertEventName(t, "test.model.unsubscribe")
		creq2.GetResponse(t).AssertErrorCode(t, "system.accessDenied")

		// No direct subscription is left: a reaccess event asks nothing, and the
		// event after it is delivered (the resource is still held indirectly)
		s.ResourceEvent("test.model", "reaccess", nil)
		s.ResourceEvent("test.model", "custom", json.RawMessage(`{"foo":"bar"}`))
		fail := func(got string) {
			out, _ := json.Marshal(map[string]string{
				"scenario": "test.model held directly and through test.model.parent; token change (re-access in flight); second subscribe.test.model; access denied (unsubscribe event, error reply); reaccess event on test.model",
				"expected": "no access request: the connection has no direct subscription on test.model", "got": got})
			fmt.Printf("REPLAY-FAIL %s\n", out)
			t.Errorf("%s", got)
		}
		select {
		case r := <-s.NATSTestClient.reqs:
			fail("request " + r.Subject + " (the direct count is not zero)")
			return
		case ev := <-c.evs:
			if ev.Event != "test.model.custom" {
				fail("event " + ev.Event)
			}
		case <-time.After(time.Second):
			fail("nothing")
		}
	})
}
