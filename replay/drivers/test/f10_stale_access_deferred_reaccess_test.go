package test

import (
	"encoding/json"
	"fmt"
	"testing"
	"time"
)

// Scenario for obligation server.(*Subscription).reaccess:post (C05, C04): an access answer is no
// longer valid once a token event reaches a connection that already had a token - also while the
// re-access is deferred because the subscription's event queue is held. The connection has a
// token; it subscribes; the access request is answered (get and call granted) while the get
// request is still open (events held: loading); a second token event arrives; the client calls a
// method. The call must not reach the service on the strength of the old answer: the next request
// the gateway issues for the resource must be an access request.
func TestReplay_NoCallOnStaleAccessWhileReaccessDeferred(t *testing.T) {
	cases := 0
	runTest(t, func(s *Session) {
		cases++
		c := s.Connect()
		cid := getCID(t, s, c)
		s.ConnEvent(cid, "token", json.RawMessage(`{"token":{"user":"foo"}}`))

		c.Request("subscribe.test.model", nil)
		mreqs := s.GetParallelRequests(t, 2)
		mreqs.GetRequest(t, "access.test.model").RespondSuccess(json.RawMessage(`{"get":true,"call":"*"}`))
		// the get request stays unanswered: the subscription is loading, its events are held
		_ = mreqs.GetRequest(t, "get.test.model")
		// let the connection worker store the access answer before the token is replaced
		time.Sleep(50 * time.Millisecond)

		// token replaced: every access answer given for the old token is void
		s.ConnEvent(cid, "token", json.RawMessage(`{"token":{"user":"bar"}}`))
		// make sure the token event was processed before the call is sent (auth needs no access)
		creq := c.Request("auth.test.method", nil)
		s.GetRequest(t).AssertSubject(t, "auth.test.method").RespondSuccess(nil)
		creq.GetResponse(t)

		c.Request("call.test.model.method", nil)
		r := s.GetRequest(t)
		if r.Subject != "access.test.model" {
			b, _ := json.Marshal(map[string]interface{}{
				"scenario": "token set; subscribe.test.model; access answered {get:true,call:*}, get left open; token replaced; call.test.model.method",
				"expected": "access.test.model (fresh access request with the new token)", "got_subject": r.Subject,
			})
			fmt.Printf("REPLAY-FAIL %s\n", b)
			t.Errorf("request %s issued on a stale access answer", r.Subject)
		}
	})
	fmt.Printf("REPLAY-CASES %d\n", cases)
}
