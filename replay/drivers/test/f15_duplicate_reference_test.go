package test

import (
	"encoding/json"
	"fmt"
	"testing"
)

// Replay drivers for the obligations processCollectionEvent:callsite[s.c.Send#1].assert and
// processModelEvent (C02): of a resource's parents the sent ones are a subset (indirectsent never
// exceeds indirect). Both scenarios end with a response that references test.model; the client
// has dropped it, so the response must carry it.
var f15cases int

func f15check(t *testing.T, resp *ClientResponse, scenario string) {
	var got struct {
		Models map[string]json.RawMessage `json:"models"`
	}
	b, _ := json.Marshal(resp.Result)
	json.Unmarshal(b, &got)
	fmt.Printf("REPLAY-CASES %d\n", f15cases)
	if _, ok := got.Models["test.model"]; !ok {
		out, _ := json.Marshal(map[string]interface{}{"scenario": scenario, "expected": "the response carries test.model", "got_models": got.Models})
		fmt.Printf("REPLAY-FAIL %s\n", out)
		t.Errorf("dangling reference: test.model not delivered")
	}
}
// Probe on the ORIGINAL code: a collection that holds the same reference twice
// (second one added by an add event while the child is already sent). The
// quick path of the add event bumps indirectsent although no new indirect
// subscription was made (addReference only bumped reference.count), so the
// child stays marked as sent after the collection has dropped it.
func TestReplay_DuplicateReferenceInCollection(t *testing.T) {
	runTest(t, func(s *Session) {
		f15cases++
		model := resourceData("test.model")
		collection := `[{"rid":"test.model"}]`
		modelDelayed := `{"name":"delayed"}`
		modelDelayedParent := `{"name":"delayedparent","child":{"rid":"test.model"},"delayed":{"rid":"test.model.delayed"}}`

		c := s.Connect()

		// Subscribe to collection referencing test.model
		creq := c.Request("subscribe.test.collection.dup", nil)
		mreqs := s.GetParallelRequests(t, 2)
		mreqs.GetRequest(t, "access.test.collection.dup").RespondSuccess(json.RawMessage(`{"get":true}`))
		mreqs.GetRequest(t, "get.test.collection.dup").RespondSuccess(json.RawMessage(`{"collection":` + collection + `}`))
		s.GetRequest(t).AssertSubject(t, "get.test.model").RespondSuccess(json.RawMessage(`{"model":` + model + `}`))
		creq.GetResponse(t).AssertResult(t, json.RawMessage(`{"models":{"test.model":`+model+`},"collections":{"test.collection.dup":`+collection+`}}`))

		// Add the same reference a second time, and remove it again.
		s.ResourceEvent("test.collection.dup", "add", json.RawMessage(`{"idx":1,"value":{"rid":"test.model"}}`))
		c.GetEvent(t).Equals(t, "test.collection.dup.add", json.RawMessage(`{"idx":1,"value":{"rid":"test.model"}}`))
		s.ResourceEvent("test.collection.dup", "remove", json.RawMessage(`{"idx":1}`))
		c.GetEvent(t).Equals(t, "test.collection.dup.remove", json.RawMessage(`{"idx":1}`))

		// A new parent referencing test.model is loading.
		creq = c.Request("subscribe.test.model.delayedparent", nil)
		mreqs = s.GetParallelRequests(t, 2)
		mreqs.GetRequest(t, "access.test.model.delayedparent").RespondSuccess(json.RawMessage(`{"get":true}`))
		mreqs.GetRequest(t, "get.test.model.delayedparent").RespondSuccess(json.RawMessage(`{"model":` + modelDelayedParent + `}`))
		mreqsecond := s.GetRequest(t)

		// Remove the last reference in the collection. Client drops test.model.
		s.ResourceEvent("test.collection.dup", "remove", json.RawMessage(`{"idx":0}`))
		c.GetEvent(t).Equals(t, "test.collection.dup.remove", json.RawMessage(`{"idx":0}`))

		mreqsecond.RespondSuccess(json.RawMessage(`{"model":` + modelDelayed + `}`))

		// Response must include test.model again.
		f15check(t, creq.GetResponse(t), "a collection holds test.model; an add event adds the same reference again (quick path), a remove takes it away; a loading parent references test.model; the last reference is removed (client drops test.model); the loading parent finishes")
	})
}

// Probe on the ORIGINAL code: one change event sets two properties to the same,
// new, reference. populateResources(r, true) is called once per property, so
// indirectsent becomes 2 for a single indirect subscription.
func TestReplay_ChangeEventTwoPropsSameReference(t *testing.T) {
	runTest(t, func(s *Session) {
		f15cases++
		model := resourceData("test.model")
		holder := `{"a":null,"b":null}`
		values := `{"a":{"rid":"test.model"},"b":{"rid":"test.model"}}`
		modelDelayed := `{"name":"delayed"}`
		modelDelayedParent := `{"name":"delayedparent","child":{"rid":"test.model"},"delayed":{"rid":"test.model.delayed"}}`

		c := s.Connect()
		subscribeToCustomResource(t, s, c, "test.model.holder", resource{typeModel, holder, nil})

		s.ResourceEvent("test.model.holder", "change", json.RawMessage(`{"values":`+values+`}`))
		s.GetRequest(t).AssertSubject(t, "get.test.model").RespondSuccess(json.RawMessage(`{"model":` + model + `}`))
		c.GetEvent(t).Equals(t, "test.model.holder.change", json.RawMessage(`{"values":`+values+`,"models":{"test.model":`+model+`}}`))

		// A new parent referencing test.model is loading.
		creq := c.Request("subscribe.test.model.delayedparent", nil)
		mreqs := s.GetParallelRequests(t, 2)
		mreqs.GetRequest(t, "access.test.model.delayedparent").RespondSuccess(json.RawMessage(`{"get":true}`))
		mreqs.GetRequest(t, "get.test.model.delayedparent").RespondSuccess(json.RawMessage(`{"model":` + modelDelayedParent + `}`))
		mreqsecond := s.GetRequest(t)

		// Remove both references. Client drops test.model.
		s.ResourceEvent("test.model.holder", "change", json.RawMessage(`{"values":{"a":null,"b":null}}`))
		c.GetEvent(t).Equals(t, "test.model.holder.change", json.RawMessage(`{"values":{"a":null,"b":null}}`))

		mreqsecond.RespondSuccess(json.RawMessage(`{"model":` + modelDelayed + `}`))

		f15check(t, creq.GetResponse(t), "one change event sets two properties of a model to the same new reference test.model; a loading parent references test.model; both properties are cleared (client drops test.model); the loading parent finishes")
	})
}

