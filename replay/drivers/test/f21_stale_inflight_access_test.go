package test

import (
	"encoding/json"
	"fmt"
	"testing"
)

// Replay driver for obligation server.(*Subscription).handleReaccess (C06, C05, C04): an access
// answer requested before a token change is not a valid verdict after it. test.model is held
// indirectly; token A is set; the client subscribes test.model directly (access request with
// token A in flight); the token changes to B; the service answers the token-A request with a
// grant. Access must be requested again with token B, and that answer (a denial) decides the
// subscribe request.
func TestReplay_StaleInFlightAccessAnswerIsNotAVerdict(t *testing.T) {
	cases := 0
	defer func() { fmt.Printf("REPLAY-CASES %d\n", cases) }()
	runTest(t, func(s *Session) {
		cases++
		tokenA := `{"user":"a"}`
		tokenB := `{"user":"b"}`
		c := s.Connect()
		cid := subscribeToTestModelParent(t, s, c, false)
		s.ConnEvent(cid, "token", json.RawMessage(`{"token":`+tokenA+`}`))
		creq := c.Request("subscribe.test.model", nil)
		areq := s.GetRequest(t).AssertSubject(t, "access.test.model").AssertPathPayload(t, "token", json.RawMessage(tokenA))
		s.ConnEvent(cid, "token", json.RawMessage(`{"token":`+tokenB+`}`))
		s.GetRequest(t).AssertSubject(t, "access.test.model.parent").AssertPathPayload(t, "token", json.RawMessage(tokenB)).RespondSuccess(json.RawMessage(`{"get":true}`))
		// the grant for the old token arrives
		areq.RespondSuccess(json.RawMessage(`{"get":true}`))
		fail := func(got string) {
			b, _ := json.Marshal(map[string]interface{}{
				"scenario": "test.model held indirectly; token A; subscribe.test.model (access with token A in flight); token B; the token-A access request is answered with a grant",
				"expected": "a new access.test.model request with token B decides the subscribe request", "got": got,
			})
			fmt.Printf("REPLAY-FAIL %s\n", b)
			t.Errorf("%s", got)
		}
		select {
		case r := <-s.NATSTestClient.reqs:
			if r.Subject != "access.test.model" {
				fail("next request is " + r.Subject)
				return
			}
			var p struct {
				Token json.RawMessage `json:"token"`
			}
			json.Unmarshal(r.RawPayload, &p)
			if string(p.Token) != tokenB {
				fail("access request carries token " + string(p.Token))
				return
			}
			r.RespondSuccess(json.RawMessage(`{"get":false}`))
			resp := creq.GetResponse(t)
			if resp.Error == nil {
				fail("subscribe succeeded although access is denied for the current token")
			}
		case resp := <-creq.ch:
			_ = resp
			fail("the subscribe request was answered from the token-A verdict, no access request with token B")
		}
	})
}
