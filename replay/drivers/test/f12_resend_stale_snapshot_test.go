package test

import (
	"encoding/json"
	"fmt"
	"testing"
)

// Scenario for obligation server.(*Subscription).Unsend:post[1] (C01, open finding F12): a resource
// that is handed to the client a second time (after the client dropped it while another, still
// loading parent kept it alive) must carry its current state. test.model is sent under
// test.model.parent; a change event sets string to "bar"; test.model.delayedparent (loading) also
// references test.model; the client unsubscribes test.model.parent (test.model becomes "not sent");
// the delayed parent finishes loading and test.model is sent again.
func TestReplay_ResendAfterUnsendIsCurrent(t *testing.T) {
	cases := 0
	defer func() { fmt.Printf("REPLAY-CASES %d\n", cases) }()
	runTest(t, func(s *Session) {
		cases++
		model := resourceData("test.model")
		modelParent := resourceData("test.model.parent")
		modelDelayed := `{"name":"delayed"}`
		modelDelayedParent := `{"name":"delayedparent","child":{"rid":"test.model"},"delayed":{"rid":"test.model.delayed"}}`
		c := s.Connect()
		creq := c.Request("subscribe.test.model.parent", nil)
		mreqs := s.GetParallelRequests(t, 2)
		mreqs.GetRequest(t, "access.test.model.parent").RespondSuccess(json.RawMessage(`{"get":true}`))
		mreqs.GetRequest(t, "get.test.model.parent").RespondSuccess(json.RawMessage(`{"model":` + modelParent + `}`))
		s.GetRequest(t).AssertSubject(t, "get.test.model").RespondSuccess(json.RawMessage(`{"model":` + model + `}`))
		creq.GetResponse(t)

		// the service changes test.model; the client gets the change
		s.ResourceEvent("test.model", "change", json.RawMessage(`{"values":{"string":"bar"}}`))
		c.GetEvent(t).Equals(t, "test.model.change", json.RawMessage(`{"values":{"string":"bar"}}`))

		// a second parent, still loading, references test.model as well
		creq = c.Request("subscribe.test.model.delayedparent", nil)
		mreqs = s.GetParallelRequests(t, 2)
		mreqs.GetRequest(t, "access.test.model.delayedparent").RespondSuccess(json.RawMessage(`{"get":true}`))
		mreqs.GetRequest(t, "get.test.model.delayedparent").RespondSuccess(json.RawMessage(`{"model":` + modelDelayedParent + `}`))
		delayed := s.GetRequest(t).AssertSubject(t, "get.test.model.delayed")

		// the client drops test.model.parent and with it test.model
		c.Request("unsubscribe.test.model.parent", nil).GetResponse(t)
		delayed.RespondSuccess(json.RawMessage(`{"model":` + modelDelayed + `}`))

		// test.model is handed to the client again: it must be the current state (string == "bar")
		resp := creq.GetResponse(t)
		var got struct {
			Models map[string]map[string]interface{} `json:"models"`
		}
		b, _ := json.Marshal(resp.Result)
		json.Unmarshal(b, &got)
		if m := got.Models["test.model"]; m == nil || m["string"] != "bar" {
			out, _ := json.Marshal(map[string]interface{}{
				"scenario": "subscribe test.model.parent (-> test.model); change event string=bar; subscribe test.model.delayedparent (loading, -> test.model); unsubscribe test.model.parent; delayed parent finishes loading",
				"expected": "test.model re-sent with string == bar", "got_test.model": m,
			})
			fmt.Printf("REPLAY-FAIL %s\n", out)
			t.Errorf("test.model re-sent with a stale snapshot: %v", m)
		}
	})
}
