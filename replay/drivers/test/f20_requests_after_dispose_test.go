package test

import (
	"fmt"
	"encoding/json"
	"strings"
	"sync"
	"testing"
	"time"

	"github.com/gorilla/websocket"
	"github.com/resgateio/resgate/server"
)

// gateLogger is a logger that can hold the goroutine writing a specific trace
// message, which lets a test keep a connection's worker goroutine busy at a
// well defined point.
type gateLogger struct {
	*CountLogger
	mu      sync.Mutex
	marker  string
	reached chan struct{}
	release chan struct{}
}

func (l *gateLogger) arm(marker string) {
	l.mu.Lock()
	defer l.mu.Unlock()
	l.marker = marker
	l.reached = make(chan struct{})
	l.release = make(chan struct{})
}

func (l *gateLogger) Trace(s string) {
	l.mu.Lock()
	marker, reached, release := l.marker, l.reached, l.release
	if marker != "" && strings.Contains(s, marker) {
		l.marker = ""
	} else {
		release = nil
	}
	l.mu.Unlock()
	l.CountLogger.Trace(s)
	if release != nil {
		close(reached)
		<-release
	}
}

// setupWithGate is the same as setup, but with a gateLogger.
func setupWithGate(t *testing.T, cfgs ...func(*server.Config)) (*Session, *gateLogger) {
	cl := NewCountLogger(true, true)
	l := &gateLogger{CountLogger: cl}

	c := NewNATSTestClient(l)
	serv, err := server.NewService(c, DefaultConfig(cfgs...))
	if err != nil {
		t.Fatalf("error creating new service: %s", err)
	}
	serv.SetLogger(l)

	s := &Session{
		t:              t,
		NATSTestClient: c,
		s:              serv,
		conns:          make(map[*Conn]struct{}),
		CountLogger:    cl,
		unsubs:         make(chan string, 256),
	}
	serv.SetOnWSClose(func(_ *websocket.Conn) {})
	serv.SetOnUnsubscribe(func(rid string) { s.unsubs <- rid })
	if err := serv.Start(); err != nil {
		panic("test: failed to start server: " + err.Error())
	}
	return s, l
}

func (s *Session) hasMQSubscription(ns string) bool {
	s.NATSTestClient.mu.Lock()
	defer s.NATSTestClient.mu.Unlock()
	_, ok := s.NATSTestClient.subs[ns]
	return ok
}

// holdWorkerAndClose makes the worker goroutine of the connection stop while
// it is replying to a request, then closes the client side of the connection
// and gives the gateway time to notice and queue the disposal of the connection
// behind the held reply.
func holdWorkerAndClose(t *testing.T, s *Session, l *gateLogger, c *Conn) {
	l.arm("system.noSubscription")
	c.Request("unsubscribe.test.notsubscribed", nil)
	select {
	case <-l.reached:
	case <-time.After(time.Second):
		t.Fatal("worker never reached the gate")
	}
	// Close the client connection. The gateway's read loop will call
	// wsConn.Dispose, which queues the disposal behind the held reply.
	c.ws.Close()
	<-c.closeCh
	delete(s.conns, c)
	time.Sleep(200 * time.Millisecond)
}

// Probe (unchanged code): a system token reset reaching the gateway after the
// client connection closed, but before the connection's worker got to run the
// queued disposal, results in an auth request on behalf of the connection
// being sent AFTER the connection was disposed (its conn.<cid> subscription
// is already gone, it is removed from the token reset fan-out), since the
// worker keeps draining callbacks queued behind the disposal.
func TestReplay_TokenResetAuthRequestAfterDispose(t *testing.T) {
	fmt.Printf("REPLAY-CASES 1\n")
	defer func() {
		if t.Failed() {
			fmt.Printf("REPLAY-FAIL {\"scenario\":\"the connection worker is held inside a reply while the socket closes; a system.tokenReset for the connection's token id is queued in that window\",\"expected\":\"no auth request after the connection is disposed\",\"got\":\"auth request sent for the disposed connection\"}\n")
		}
	}()
	s, l := setupWithGate(t)
	defer teardown(s)

	c := s.Connect()
	cid := getCID(t, s, c)
	s.ConnEvent(cid, "token", json.RawMessage(`{"token":{"user":"foo"},"tid":"foo"}`))
	c.AssertNoNATSRequest(t, "test") // Flush, so that the token is set

	holdWorkerAndClose(t, s, l, c)

	// Token reset arrives. The connection is closed, but not yet disposed.
	s.SystemEvent("tokenReset", json.RawMessage(`{"tids":["foo"],"subject":"token.renew"}`))

	// Let the worker continue: reply, dispose, then the queued token reset.
	close(l.release)

	select {
	case req := <-s.reqs:
		if s.hasMQSubscription("conn." + cid) {
			t.Skipf("inconclusive: request %s sent before the connection was disposed", req.Subject)
		}
		t.Fatalf("request %s (%s) was sent on behalf of an already disposed connection", req.Subject, req.RawPayload)
	case <-time.After(500 * time.Millisecond):
	}
}

// Probe (unchanged code): the answer to an access check for a call on a not
// subscribed resource arrives after the client connection closed, but before
// the worker got to run the queued disposal. The call request is then sent to
// the service AFTER the connection was disposed.
func TestReplay_CallRequestAfterDispose(t *testing.T) {
	fmt.Printf("REPLAY-CASES 1\n")
	defer func() {
		if t.Failed() {
			fmt.Printf("REPLAY-FAIL {\"scenario\":\"the connection worker is held inside a reply while the socket closes; a call request on a resource the connection does not subscribe to was accepted before that; its access answer arrives after the disposal\",\"expected\":\"no call request after the connection is disposed\",\"got\":\"call request sent for the disposed connection\"}\n")
		}
	}()
	s, l := setupWithGate(t)
	defer teardown(s)

	c := s.Connect()
	cid := getCID(t, s, c)

	// Call on a resource the client does not subscribe to
	c.Request("call.test.model.method", json.RawMessage(`{"value":42}`))
	areq := s.GetRequest(t).AssertSubject(t, "access.test.model")

	holdWorkerAndClose(t, s, l, c)

	// The access answer arrives. The connection is closed, but not yet disposed.
	areq.RespondSuccess(json.RawMessage(`{"get":true,"call":"*"}`))
	time.Sleep(50 * time.Millisecond)

	// Let the worker continue: reply, dispose, then the queued access verdict.
	close(l.release)

	select {
	case req := <-s.reqs:
		if s.hasMQSubscription("conn." + cid) {
			t.Skipf("inconclusive: request %s sent before the connection was disposed", req.Subject)
		}
		t.Fatalf("request %s (%s) was sent on behalf of an already disposed connection", req.Subject, req.RawPayload)
	case <-time.After(500 * time.Millisecond):
	}
}
