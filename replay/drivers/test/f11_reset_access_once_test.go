package test

import (
	"encoding/json"
	"fmt"
	"testing"
	"time"
)

// Scenario for obligation rescache.(*Cache).forEachMatch (C12): a system reset re-requests access
// exactly once for a direct subscription, also when the resource name matches more than one of
// the listed access patterns. One client subscribes to test.model; the reset lists the patterns
// "test.>" and "test.model". Exactly one access request may follow.
func TestReplay_ResetAccessOncePerSubscription(t *testing.T) {
	cases := 0
	runTest(t, func(s *Session) {
		cases++
		c := s.Connect()
		subscribeToTestModel(t, s, c)
		s.SystemEvent("reset", json.RawMessage(`{"access":["test.>","test.model"]}`))
		s.GetRequest(t).AssertSubject(t, "access.test.model").RespondSuccess(json.RawMessage(`{"get":true}`))
		select {
		case r := <-s.NATSTestClient.reqs:
			b, _ := json.Marshal(map[string]interface{}{
				"scenario": "one client subscribed to test.model; system.reset {access:[test.>, test.model]}; first access request answered",
				"expected": "no further request", "got_subject": r.Subject,
			})
			fmt.Printf("REPLAY-FAIL %s\n", b)
			t.Errorf("second request after one reset: %s", r.Subject)
		case <-time.After(300 * time.Millisecond):
		}
	})
	fmt.Printf("REPLAY-CASES %d\n", cases)
}
