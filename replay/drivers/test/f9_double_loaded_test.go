package test

import (
	"encoding/json"
	"fmt"
	"testing"
	"time"
)

// Scenario for obligation rescache.(*ResourceSubscription).processGetResponse:post[4] (C03, C13):
// two get requests are in flight for one normalised query - one under a non-normalised query
// (client A), one under the normalised query (client B). Answering A's request must not complete
// B's resource (B's own answer then hands the resource to A a second time, which resets A's
// subscription to "loading" for good). Observable: after both answers, a query event answered
// with a change must reach both clients under the resource id each of them used.
func TestReplay_SharedQueryLoadedOnce(t *testing.T) {
	cases := 0
	runTest(t, func(s *Session) {
		cases++
		model := resourceData("test.model")
		cA := s.Connect()
		cB := s.Connect()
		reqA := cA.Request("subscribe.test.model?q=foo&f=bar", nil)
		mreqsA := s.GetParallelRequests(t, 2)
		mreqsA.GetRequest(t, "access.test.model").RespondSuccess(json.RawMessage(`{"get":true}`))
		getA := mreqsA.GetRequest(t, "get.test.model")
		reqB := cB.Request("subscribe.test.model?f=bar&q=foo", nil)
		mreqsB := s.GetParallelRequests(t, 2)
		mreqsB.GetRequest(t, "access.test.model").RespondSuccess(json.RawMessage(`{"get":true}`))
		getB := mreqsB.GetRequest(t, "get.test.model")

		getA.RespondSuccess(json.RawMessage(`{"model":` + model + `,"query":"f=bar&q=foo"}`))
		getB.RespondSuccess(json.RawMessage(`{"model":` + model + `,"query":"f=bar&q=foo"}`))
		reqA.GetResponse(t)
		reqB.GetResponse(t)

		s.ResourceEvent("test.model", "query", json.RawMessage(`{"subject":"_EVENT_01_"}`))
		s.GetRequest(t).RespondSuccess(json.RawMessage(`{"events":[{"event":"change","data":{"values":{"string":"bar","int":-12}}}]}`))
		cB.GetEvent(t).Equals(t, "test.model?f=bar&q=foo.change", json.RawMessage(`{"values":{"string":"bar","int":-12}}`))
		select {
		case ev := <-cA.evs:
			if ev.Event != "test.model?q=foo&f=bar.change" {
				t.Errorf("unexpected event %s", ev.Event)
			}
		case <-time.After(500 * time.Millisecond):
			b, _ := json.Marshal(map[string]interface{}{
				"scenario": "A subscribes test.model?q=foo&f=bar, B subscribes test.model?f=bar&q=foo, both gets in flight; A's get answered (normalised to f=bar&q=foo), then B's; query event answered with a change",
				"expected": "change event for A under test.model?q=foo&f=bar", "got": "no event for A",
			})
			fmt.Printf("REPLAY-FAIL %s\n", b)
			t.Errorf("client A received no change event")
		}
	})
	fmt.Printf("REPLAY-CASES %d\n", cases)
}
