package test

import (
	"encoding/json"
	"fmt"
	"testing"
	"time"
)

// Replay driver for obligation server.(*Subscription).Unsend:post (C02): no event is sent for a
// resource the client does not currently hold. The client holds test.model directly; a parent
// that references it is still loading; the client unsubscribes test.model (it drops it; the
// gateway keeps it, reset to "not sent", for the loading parent); the service changes test.model.
// Until the parent's response hands test.model over again, no test.model event may be written.
func TestReplay_NoEventWhileUnsent(t *testing.T) {
	cases := 0
	defer func() { fmt.Printf("REPLAY-CASES %d\n", cases) }()
	runTest(t, func(s *Session) {
		cases++
		modelDelayed := `{"name":"delayed"}`
		modelDelayedParent := `{"name":"delayedparent","child":{"rid":"test.model"},"delayed":{"rid":"test.model.delayed"}}`
		c := s.Connect()
		subscribeToTestModel(t, s, c)
		creq := c.Request("subscribe.test.model.delayedparent", nil)
		mreqs := s.GetParallelRequests(t, 2)
		mreqs.GetRequest(t, "access.test.model.delayedparent").RespondSuccess(json.RawMessage(`{"get":true}`))
		mreqs.GetRequest(t, "get.test.model.delayedparent").RespondSuccess(json.RawMessage(`{"model":` + modelDelayedParent + `}`))
		delayed := s.GetRequest(t)
		c.Request("unsubscribe.test.model", nil).GetResponse(t)

		s.ResourceEvent("test.model", "change", json.RawMessage(`{"values":{"string":"bar"}}`))
		select {
		case ev := <-c.evs:
			b, _ := json.Marshal(map[string]interface{}{
				"scenario": "client holds test.model; test.model.delayedparent (references test.model) is loading; client unsubscribes test.model; change event on test.model",
				"expected": "no event before test.model is handed over again", "got_event": ev.Event,
			})
			fmt.Printf("REPLAY-FAIL %s\n", b)
			t.Errorf("event %s written for a resource the client does not hold", ev.Event)
		case <-time.After(100 * time.Millisecond):
		}
		delayed.RespondSuccess(json.RawMessage(`{"model":` + modelDelayed + `}`))
		creq.GetResponse(t)
	})
}
