package test

import (
	"encoding/json"
	"fmt"
	"testing"

	"github.com/resgateio/resgate/server/reserr"
)

// Scenario for obligation server.(*wsConn).GetResource#2:post[1] (C08): a get request whose
// resource load fails must leave no direct subscription behind. Observable: a following
// unsubscribe request for the same rid must fail with system.noSubscription.
func TestReplay_GetErrorLeavesNoSubscription(t *testing.T) {
	for _, getErr := range []*reserr.Error{reserr.ErrNotFound, reserr.ErrInternalError, reserr.ErrTimeout} {
		getErr := getErr
		runTest(t, func(s *Session) {
			c := s.Connect()
			creq := c.Request("get.test.model", nil)
			mreqs := s.GetParallelRequests(t, 2)
			mreqs.GetRequest(t, "access.test.model").RespondSuccess(json.RawMessage(`{"get":true}`))
			mreqs.GetRequest(t, "get.test.model").RespondError(getErr)
			creq.GetResponse(t).AssertIsError(t)

			resp := c.Request("unsubscribe.test.model", nil).GetResponse(t)
			if resp.Error == nil || resp.Error.Code != reserr.CodeNoSubscription {
				b, _ := json.Marshal(map[string]interface{}{
					"scenario": "get.test.model; access grants get; get answers " + getErr.Code + "; then unsubscribe.test.model",
					"expected": "system.noSubscription", "got_error": resp.Error,
				})
				fmt.Printf("REPLAY-FAIL %s\n", b)
				t.Errorf("unsubscribe after failed get succeeded")
			}
		})
	}
}
