package test

import (
	"encoding/json"
	"fmt"
	"os"
	"os/exec"
	"strings"
	"testing"
)

// Replay driver for obligation rescache.(*EventSubscription).handleQueryEvent#3:nilderef (C15): a
// query request answered with {"events":[null]} must not terminate the gateway. The crash kills
// the whole test process, so the scenario runs in a child process (same test binary).
func TestReplay_NullEventInQueryResponse(t *testing.T) {
	if os.Getenv("VERIF_F14_CHILD") == "1" {
		runTest(t, func(s *Session) {
			c := s.Connect()
			subscribeToTestQueryModel(t, s, c, "q=foo&f=bar", "q=foo&f=bar")
			s.ResourceEvent("test.model", "query", json.RawMessage(`{"subject":"_EVENT_01_"}`))
			s.GetRequest(t).RespondSuccess(json.RawMessage(`{"events":[null]}`))
			c.AssertNoEvent(t, "test.model")
			// (a repaired gateway logs the discarded answer)
			s.AssertErrorsLogged(t, 1)
			// later valid query events are still processed
			s.ResourceEvent("test.model", "query", json.RawMessage(`{"subject":"_EVENT_02_"}`))
			s.GetRequest(t).RespondSuccess(json.RawMessage(`{"events":[{"event":"change","data":{"values":{"string":"bar"}}}]}`))
			c.GetEvent(t).Equals(t, "test.model?q=foo&f=bar.change", json.RawMessage(`{"values":{"string":"bar"}}`))
		})
		return
	}
	cmd := exec.Command(os.Args[0], "-test.run", "^TestReplay_NullEventInQueryResponse$", "-test.count=1")
	cmd.Env = append(os.Environ(), "VERIF_F14_CHILD=1")
	out, err := cmd.CombinedOutput()
	fmt.Printf("REPLAY-CASES 1\n")
	if err != nil {
		reason := "test failed"
		if strings.Contains(string(out), "panic:") || strings.Contains(string(out), "SIGSEGV") {
			reason = "gateway process panicked (nil pointer dereference)"
		}
		b, _ := json.Marshal(map[string]interface{}{
			"scenario": "client subscribed to test.model?q=foo&f=bar; query event; the query request is answered with {\"events\":[null]}",
			"expected": "answer discarded, later query events processed", "got": reason,
		})
		fmt.Printf("REPLAY-FAIL %s\n", b)
		t.Errorf("%s", reason)
	}
}
