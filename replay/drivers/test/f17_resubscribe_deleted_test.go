package test

import (
	"encoding/json"
	"fmt"
	"testing"
	"time"
)

// Replay driver for obligation server.(*wsConn).subscribe:post[3] (C03, open finding F17): a client
// holds test.model only through test.model.parent; the service deletes test.model (delete event
// delivered); the resource is created again and a second client subscribes to it; the first
// client then subscribes directly. Once its subscribe response has handed test.model over, its
// events must reach the client.
func TestReplay_ResubscribeAfterIndirectDelete(t *testing.T) {
	model := resourceData("test.model")

	runTest(t, func(s *Session) {
		c := s.Connect()
		subscribeToTestModelParent(t, s, c, false)

		// Service deletes the indirectly held child
		s.ResourceEvent("test.model", "delete", nil)
		c.GetEvent(t).Equals(t, "test.model.delete", nil)

		// A second client subscribes to the (re-created) resource. This gives
		// a fresh get request, as the delete evicted the resource from the cache.
		c2 := s.Connect()
		subscribeToTestModel(t, s, c2)

		// The first client now subscribes directly to the re-created resource
		creq := c.Request("subscribe.test.model", nil)
		s.GetRequest(t).
			AssertSubject(t, "access.test.model").
			RespondSuccess(json.RawMessage(`{"get":true}`))
		creq.GetResponse(t).AssertResult(t, json.RawMessage(`{"models":{"test.model":`+model+`}}`))

		// Service emits an event on the resource both clients now hold
		s.ResourceEvent("test.model", "custom", common.CustomEvent())
		c2.GetEvent(t).Equals(t, "test.model.custom", common.CustomEvent())
		fmt.Printf("REPLAY-CASES 1\n")
		select {
		case ev := <-c.evs:
			if ev.Event != "test.model.custom" {
				t.Errorf("unexpected event %s", ev.Event)
			}
		case <-time.After(300 * time.Millisecond):
			out, _ := json.Marshal(map[string]interface{}{
				"scenario": "client 1 holds test.model through test.model.parent; delete event on test.model; client 2 subscribes test.model (fresh get); client 1 subscribes test.model directly (answered from the deleted subscription, no get request); custom event on test.model",
				"expected": "both clients receive test.model.custom", "got": "client 1 receives nothing",
			})
			fmt.Printf("REPLAY-FAIL %s\n", out)
			t.Errorf("client 1 is cut off from the events of test.model")
		}
	})
}

