package test

import (
	"fmt"
	"testing"

	"github.com/gorilla/websocket"
)

// A request that is a JSON object with an unsigned integer id, but with a
// non-string method, gets no response at all (json.Unmarshal reports a type
// error, and HandleRequest returns the error, which wsConn.listen ignores).
// Replay driver for obligation rpc.HandleRequest:return#1.assert (C07).
func TestReplay_NonStringMethodGetsResponse(t *testing.T) {
	fmt.Printf("REPLAY-CASES 1\n")
	defer func() {
		if t.Failed() {
			fmt.Printf("REPLAY-FAIL {\"input\":\"{\\\"id\\\":1099511627776,\\\"method\\\":42}\",\"expected\":\"one response frame with that id\",\"got\":\"no response\"}\n")
		}
	}()
	runTest(t, func(s *Session) {
		c := s.Connect()

		const id = uint64(1) << 40
		req := &ClientRequest{Method: "raw", c: c, ch: make(chan *ClientResponse, 1)}
		c.mu.Lock()
		c.reqs[id] = req
		err := c.ws.WriteMessage(websocket.TextMessage, []byte(`{"id":1099511627776,"method":42}`))
		c.mu.Unlock()
		if err != nil {
			t.Fatal(err)
		}

		// Flush: requests are handled in order by the connection worker
		getCID(t, s, c)

		select {
		case <-req.ch:
		default:
			t.Fatal("expected a response to the request with id 1099511627776, but found none")
		}
	})
}
