package test

import (
	"encoding/json"
	"fmt"
	"testing"

	"github.com/resgateio/resgate/server"
)

// Probe on the ORIGINAL code: access checks of a system reset that are
// deferred because the subscription is busy (here: still loading) are later
// sent with a nil throttle (unqueueEvents -> handleReaccess(nil)), so more than
// resetThrottle re-access requests of one reset are outstanding at once.
//
// The test asserts the bound (at most resetThrottle=1 outstanding) and is
// expected to FAIL on the unchanged code.
// Replay driver for obligation server.(*Subscription).unqueueEvents:callsite[s.handleReaccess#1].assert (C19).
func TestReplay_DeferredResetAccessChecksThrottled(t *testing.T) {
	fmt.Printf("REPLAY-CASES 1\n")
	defer func() {
		if t.Failed() {
			fmt.Printf("REPLAY-FAIL {\"scenario\":\"resetThrottle=1; three subscriptions still loading when system.reset access arrives (checks deferred); the gets are answered\",\"expected\":\"one re-access request outstanding at a time\",\"got\":\"several outstanding\"}\n")
		}
	}()
	const subscriptionCount = 3
	const resetThrottle = 1
	runTest(t, func(s *Session) {
		c := s.Connect()

		// Subscribe to all models, answering access but holding the get requests
		creqs := make([]*ClientRequest, 0, subscriptionCount)
		for i := 1; i <= subscriptionCount; i++ {
			creqs = append(creqs, c.Request(fmt.Sprintf("subscribe.test.model.%d", i), nil))
		}
		mreqs := s.GetParallelRequests(t, subscriptionCount*2)
		for i := 1; i <= subscriptionCount; i++ {
			mreqs.GetRequest(t, fmt.Sprintf("access.test.model.%d", i)).
				RespondSuccess(json.RawMessage(`{"get":true}`))
		}

		// System reset while all subscriptions are busy loading: checks deferred
		s.SystemEvent("reset", json.RawMessage(`{"access":["test.>"]}`))

		// Answer get requests; each subscription becomes idle
		for i := 1; i <= subscriptionCount; i++ {
			mreqs.GetRequest(t, fmt.Sprintf("get.test.model.%d", i)).
				RespondSuccess(json.RawMessage(fmt.Sprintf(`{"model":{"id":%d}}`, i)))
		}
		for _, creq := range creqs {
			creq.GetResponse(t)
		}

		// With resetThrottle 1, only a single re-access request should be
		// outstanding at any time.
		for i := 1; i <= subscriptionCount; i++ {
			req := s.GetRequest(t)
			// No other request may be outstanding while this one is unanswered
			c.AssertNoNATSRequest(t, "test.model.1")
			req.RespondSuccess(json.RawMessage(`{"get":true}`))
		}
	}, func(c *server.Config) {
		c.ResetThrottle = resetThrottle
	})
}
