package test

import (
	"encoding/json"
	"fmt"
	"testing"

	"github.com/resgateio/resgate/server/reserr"
)

// Replay driver for obligation server.(*Service).apiHandler:callsite[PathToRID#*] (C14): each part
// of an HTTP path is unescaped exactly once, so an escaped percent sign stays a percent sign.
func TestReplay_HTTPPathUnescapedOnce(t *testing.T) {
	tbl := []struct{ URL, RName string }{
		{"/api/test/a%2541", "test.a%41"},
		{"/api/test/a%252Eb", "test.a%2Eb"},
		{"/api/test/a%253Fq=1", "test.a%3Fq=1"},
	}
	fmt.Printf("REPLAY-CASES %d\n", len(tbl))
	for _, l := range tbl {
		l := l
		runNamedTest(t, l.URL, func(s *Session) {
			hreq := s.HTTPRequest("GET", l.URL, nil)
			mreqs := s.GetParallelRequests(t, 2)
			got := ""
			for _, r := range mreqs {
				if r.Subject != "access."+l.RName && r.Subject != "get."+l.RName {
					got += r.Subject + " "
				}
			}
			if got != "" {
				out, _ := json.Marshal(map[string]string{"request": "GET " + l.URL, "expected": "access." + l.RName + " and get." + l.RName, "got": got})
				fmt.Printf("REPLAY-FAIL %s\n", out)
				t.Errorf("GET %s: %s", l.URL, got)
			}
			for _, r := range mreqs {
				r.RespondError(reserr.ErrNotFound)
			}
			hreq.GetResponse(t)
		})
	}
}
