package test

import (
	"encoding/json"
	"fmt"
	"testing"
)

// Replay driver for obligation server.(*wsConn).tryDelete:callsite[s.traverse#1] (C02): the
// collector started for a deleted resource treats it as sent.
func TestReplay_DeletedRootResetsChildren(t *testing.T) {
	fmt.Printf("REPLAY-CASES 1\n")
	runTest(t, func(s *Session) {
		model := resourceData("test.model")
		modelDelayed := `{"name":"delayed"}`
		modelDelayedParent := `{"name":"delayedparent","child":{"rid":"test.model"},"delayed":{"rid":"test.model.delayed"}}`

		c := s.Connect()
		subscribeToTestModelParent(t, s, c, false)

		creq := c.Request("subscribe.test.model.delayedparent", nil)
		mreqs := s.GetParallelRequests(t, 2)
		mreqs.GetRequest(t, "access.test.model.delayedparent").RespondSuccess(json.RawMessage(`{"get":true}`))
		mreqs.GetRequest(t, "get.test.model.delayedparent").RespondSuccess(json.RawMessage(`{"model":` + modelDelayedParent + `}`))
		mreqsecond := s.GetRequest(t).AssertSubject(t, "get.test.model.delayed")

		// Delete the only parent the client holds.
		s.ResourceEvent("test.model.parent", "delete", nil)
		c.GetEvent(t).Equals(t, "test.model.parent.delete", nil)
		c.GetEvent(t).Equals(t, "test.model.parent.unsubscribe", mock.UnsubscribeReasonDeleted)

		mreqsecond.RespondSuccess(json.RawMessage(`{"model":` + modelDelayed + `}`))

		// The response should include test.model.
		_ = model
		resp := creq.GetResponse(t)
		b, _ := json.Marshal(resp.Result)
		var res struct {
			Models map[string]json.RawMessage `json:"models"`
		}
		json.Unmarshal(b, &res)
		if _, ok := res.Models["test.model"]; !ok {
			out, _ := json.Marshal(map[string]string{
				"scenario": "test.model.parent->test.model sent; delayedparent->test.model loading; delete event on test.model.parent (the client drops it and test.model); delayedparent is answered",
				"expected": "the response carries test.model", "got": string(b)})
			fmt.Printf("REPLAY-FAIL %s\n", out)
			t.Errorf("test.model is missing in %s", b)
		}
	})
}
