package test

import (
	"encoding/json"
	"fmt"
	"testing"
)

// Replay driver for obligation server.(*wsConn).call#1 (C05): a call on a resource without
// subscription; token A set; the access request with token A is in flight when the token is
// replaced by B; the service grants for A. Access must be asked again with token B.
func TestReplay_UnsubscribedCallAfterTokenReplaced(t *testing.T) {
	fmt.Printf("REPLAY-CASES 1\n")
	tokenA := `{"user":"admin"}`
	tokenB := `{"user":"guest"}`
	runTest(t, func(s *Session) {
		c := s.Connect()
		cid := getCID(t, s, c)
		s.ConnEvent(cid, "token", json.RawMessage(`{"token":`+tokenA+`}`))
		creq := c.Request("call.test.model.method", nil)
		areq := s.GetRequest(t).AssertSubject(t, "access.test.model").AssertPathPayload(t, "token", json.RawMessage(tokenA))
		s.ConnEvent(cid, "token", json.RawMessage(`{"token":`+tokenB+`}`))
		areq.RespondSuccess(json.RawMessage(`{"get":true,"call":"*"}`))
		r := s.GetRequest(t)
		if r.Subject != "access.test.model" {
			out, _ := json.Marshal(map[string]string{
				"scenario": "no subscription on test.model; token A; call.test.model.method (access with token A in flight); token B; the token-A access request is answered with call:*",
				"expected": "access.test.model asked again with token B", "got": "next request is " + r.Subject})
			fmt.Printf("REPLAY-FAIL %s\n", out)
			t.Errorf("next request is %s", r.Subject)
			return
		}
		r.AssertPathPayload(t, "token", json.RawMessage(tokenB)).RespondSuccess(json.RawMessage(`{"get":true}`))
		creq.GetResponse(t).AssertErrorCode(t, "system.accessDenied")
	})
}
