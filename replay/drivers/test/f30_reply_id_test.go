package test

import (
	"fmt"
	"encoding/json"
	"testing"
	"time"

	"github.com/posener/wstest"
)

// Replay driver for obligation rpc.HandleRequest:callsite[req.Reply#1].assert (C07).
func TestReplay_NoReplyWithIDNeverRequested(t *testing.T) {
	fmt.Printf("REPLAY-CASES 3\n")
	for _, raw := range []string{
		`{"id":"abc","method":"version"}`,
		`{"id":-1,"method":"version"}`,
		`{"id":1.5,"method":"version"}`,
	} {
		raw := raw
		runNamedTest(t, raw, func(s *Session) {
			d := wstest.NewDialer(s.s.GetWSHandlerFunc())
			ws, _, err := d.Dial("ws://example.org/", nil)
			if err != nil {
				t.Fatalf("dial failed: %s", err)
			}
			defer ws.Close()

			frames := make(chan string, 16)
			go func() {
				defer close(frames)
				for {
					_, in, err := ws.ReadMessage()
					if err != nil {
						return
					}
					frames <- string(in)
				}
			}()

			if err := ws.WriteMessage(1, []byte(raw)); err != nil {
				t.Fatal(err)
			}
			// Flush with a proper request
			if err := ws.WriteMessage(1, []byte(`{"id":7,"method":"version"}`)); err != nil {
				t.Fatal(err)
			}
			for {
				select {
				case f := <-frames:
					var r struct {
						ID *uint64 `json:"id"`
					}
					json.Unmarshal([]byte(f), &r)
					if r.ID != nil && *r.ID == 7 {
						return
					}
					out, _ := json.Marshal(map[string]string{"frame": raw, "expected": "no reply (the frame has no valid id)", "got": f})
					fmt.Printf("REPLAY-FAIL %s\n", out)
					t.Errorf("request %s was answered with a frame carrying an id never requested: %s", raw, f)
				case <-time.After(timeoutSeconds * time.Second):
					t.Fatal("no answer to the flush request")
				}
			}
		})
	}
}
