package test

import (
	"encoding/json"
	"fmt"
	"testing"
)

// Replay driver for obligation server.(*wsConn).tryDelete (C02): a resource that is reset to
// not-sent in the same collection step in which its sent parent is disposed ends with a
// sent-parent count of zero, whatever order the two are handled in (the step iterates a map).
func TestReplay_UnsendAndDisposeInOneStep(t *testing.T) {
	const rounds = 60
	fmt.Printf("REPLAY-CASES %d\n", rounds)
	for i := 0; i < rounds && !t.Failed(); i++ {
		runTest(t, func(s *Session) {
			model := resourceData("test.model")
			d1 := `{"name":"d1"}`
			d2 := `{"name":"d2"}`
			q := `{"name":"q","child":{"rid":"test.model"},"delayed":{"rid":"test.model.d1"}}`
			r := `{"name":"r","child":{"rid":"test.model"},"delayed":{"rid":"test.model.d2"}}`

			c := s.Connect()
			subscribeToTestModelParent(t, s, c, false)

			creq := c.Request("subscribe.test.model.q", nil)
			mreqs := s.GetParallelRequests(t, 2)
			mreqs.GetRequest(t, "access.test.model.q").RespondSuccess(json.RawMessage(`{"get":true}`))
			mreqs.GetRequest(t, "get.test.model.q").RespondSuccess(json.RawMessage(`{"model":` + q + `}`))
			md1 := s.GetRequest(t).AssertSubject(t, "get.test.model.d1")

			// The client drops test.model (reset to not-sent) together with its parent (disposed)
			c.Request("unsubscribe.test.model.parent", nil).GetResponse(t)
			md1.RespondSuccess(json.RawMessage(`{"model":` + d1 + `}`))
			creq.GetResponse(t).AssertResult(t, json.RawMessage(`{"models":{"test.model":`+model+`,"test.model.q":`+q+`,"test.model.d1":`+d1+`}}`))

			creq = c.Request("subscribe.test.model.r", nil)
			mreqs = s.GetParallelRequests(t, 2)
			mreqs.GetRequest(t, "access.test.model.r").RespondSuccess(json.RawMessage(`{"get":true}`))
			mreqs.GetRequest(t, "get.test.model.r").RespondSuccess(json.RawMessage(`{"model":` + r + `}`))
			md2 := s.GetRequest(t).AssertSubject(t, "get.test.model.d2")

			// The client drops test.model again, with q
			c.Request("unsubscribe.test.model.q", nil).GetResponse(t)
			md2.RespondSuccess(json.RawMessage(`{"model":` + d2 + `}`))
			resp := creq.GetResponse(t)
			b, _ := json.Marshal(resp.Result)
			var res struct {
				Models map[string]json.RawMessage `json:"models"`
			}
			json.Unmarshal(b, &res)
			if _, ok := res.Models["test.model"]; !ok {
				out, _ := json.Marshal(map[string]string{
					"scenario": "parent->test.model sent; q->test.model loading; unsubscribe parent; q is answered (test.model sent again); r->test.model loading; unsubscribe q; r is answered",
					"expected": "the response of r carries test.model, which the client dropped with q", "got": string(b)})
				fmt.Printf("REPLAY-FAIL %s\n", out)
				t.Errorf("test.model is missing in %s", b)
			}
		})
	}
}
