package test

import (
	"fmt"
	"testing"
	"time"

	"github.com/resgateio/resgate/server"
)

// Replay driver for obligation server.(*wsConn).listen:post[2] (C20): a WebSocket connection whose header
// authentication request is still in flight when Stop is called has no
// websocket yet (wsConn.ws == nil), so stopWSHandler's Disconnect does nothing
// for it. If the auth answer arrives while Stop is waiting for the connections
// (up to WSTimeout), the upgrade goes ahead, and after Stop has completed the
// client is still connected to - and answered by - a stopped gateway.
func TestReplay_UpgradeDuringStopIsClosed(t *testing.T) {
	fmt.Printf("REPLAY-CASES 1\n")
	s := setup(t, func(cfg *server.Config) {
		headerAuth := "vault.method"
		cfg.WSHeaderAuth = &headerAuth
	})
	defer func() {
		if t.Failed() {
			t.Logf("Trace log:\n%s", s.CountLogger)
		}
	}()

	// Client dials; the handshake blocks on the auth request
	type dialResult struct {
		c   *Conn
		err error
	}
	dialed := make(chan dialResult, 1)
	go func() {
		c, _, err := s.connect(make(chan *ClientEvent, 256), nil)
		dialed <- dialResult{c, err}
	}()
	req := s.GetRequest(t)
	req.AssertSubject(t, "auth.vault.method")

	// Stop is called with the auth request in flight
	st := s.s.StopChannel()
	go s.s.Stop(nil)
	time.Sleep(200 * time.Millisecond)

	// The auth answer arrives while Stop waits for the connections
	req.RespondSuccess(nil)

	var c *Conn
	select {
	case r := <-dialed:
		if r.err != nil {
			// Refused handshake is fine
			c = nil
		} else {
			c = r.c
		}
	case <-time.After(5 * time.Second):
		t.Fatal("dial did not return")
	}

	select {
	case <-st:
	case <-time.After(10 * time.Second):
		t.Fatal("Stop did not complete")
	}
	if s.s.StopChannel() != nil {
		t.Fatal("expected service to be stopped")
	}

	if c == nil {
		return
	}

	// Every client WebSocket must be closed by now
	select {
	case <-c.closeCh:
		return
	case <-time.After(time.Second):
		fmt.Printf("REPLAY-FAIL {\"scenario\":\"wsHeaderAuth; a client dials, its auth request is in flight; Stop is called; the auth answer arrives while Stop waits\",\"expected\":\"the client WebSocket is closed when Stop has completed\",\"got\":\"still open, and answered by the stopped gateway\"}\n")
		t.Errorf("client WebSocket is still open after Stop has completed")
	}

	// And the stopped gateway still answers it
	creq := c.Request("version", versionRequest)
	select {
	case resp := <-creq.ch:
		t.Errorf("stopped gateway answered a client request: result=%s error=%v", resp.Result, resp.Error)
	case <-time.After(time.Second):
	}
	c.ws.Close()
}
