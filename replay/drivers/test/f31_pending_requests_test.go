package test

import (
	"encoding/json"
	"fmt"
	"testing"
	"time"
)

// Replay drivers for obligation server.(*wsConn).UnsubscribeByRID (C07, C08): the subscription a
// pending subscribe or get request has been counted for is not something the client can give
// back yet. Only what a successful response has confirmed can be unsubscribed.

// A subscribe is waiting for its access answer; an unsubscribe for the same resource must be
// refused, and the subscribe must still get its response.
func TestReplay_UnsubscribeWhileSubscribePending(t *testing.T) {
	fmt.Printf("REPLAY-CASES 1\n")
	runTest(t, func(s *Session) {
		model := resourceData("test.model")
		c := s.Connect()

		creq := c.Request("subscribe.test.model", nil)
		mreqs := s.GetParallelRequests(t, 2)
		mreqs.GetRequest(t, "get.test.model").RespondSuccess(json.RawMessage(`{"model":` + model + `}`))
		access := mreqs.GetRequest(t, "access.test.model")

		uresp := c.Request("unsubscribe.test.model", nil).GetResponse(t)
		access.RespondSuccess(json.RawMessage(`{"get":true}`))

		fail := func(got string) {
			out, _ := json.Marshal(map[string]string{
				"scenario": "subscribe.test.model (access request in flight); unsubscribe.test.model; the access request is granted",
				"expected": "the unsubscribe is refused (nothing confirmed yet) and the subscribe gets its response", "got": got})
			fmt.Printf("REPLAY-FAIL %s\n", out)
			t.Errorf("%s", got)
		}
		if uresp.Error == nil {
			fail("the unsubscribe succeeded although no subscribe response had been sent")
		}
		select {
		case <-creq.ch:
		case <-time.After(time.Second):
			fail("the subscribe request never got a response")
		}
	})
}

// One confirmed subscription and one get waiting for an access answer: two cannot be given back.
func TestReplay_UnsubscribeCountExcludesPendingGet(t *testing.T) {
	fmt.Printf("REPLAY-CASES 1\n")
	runTest(t, func(s *Session) {
		c := s.Connect()
		subscribeToTestModel(t, s, c)

		s.ResourceEvent("test.model", "reaccess", nil)
		areq := s.GetRequest(t).AssertSubject(t, "access.test.model")
		greq := c.Request("get.test.model", nil)

		uresp := c.Request("unsubscribe.test.model", json.RawMessage(`{"count":2}`)).GetResponse(t)
		if uresp.Error == nil {
			out, _ := json.Marshal(map[string]string{
				"scenario": "one subscription on test.model; reaccess event (access in flight); get.test.model waits for it; unsubscribe.test.model {count:2}",
				"expected": "system.noSubscription: the client holds one subscription", "got": "the unsubscribe succeeded"})
			fmt.Printf("REPLAY-FAIL %s\n", out)
			t.Errorf("unsubscribe of 2 succeeded with one subscription")
			return
		}
		areq.RespondSuccess(json.RawMessage(`{"get":true}`))
		greq.GetResponse(t)
		c.Request("unsubscribe.test.model", nil).GetResponse(t).AssertResult(t, nil)
	})
}
