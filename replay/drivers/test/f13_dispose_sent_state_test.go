package test

import (
	"encoding/json"
	"fmt"
	"testing"
)

// Probe on the ORIGINAL code: a child (test.model) shared by two sent parents.
// One parent is unsubscribed (disposed), then the second parent is
// unsubscribed while a third, still loading, parent references the child.
// The client no longer holds test.model, so it must be part of the response.
// Replay driver for obligation server.(*Subscription).Dispose:callsite[s.unsubscribeRefs#1].assert (C02).
func TestReplay_TwoParentsDisposed_ChildResent(t *testing.T) {
	cases := 0
	defer func() { fmt.Printf("REPLAY-CASES %d\n", cases) }()
	runTest(t, func(s *Session) {
		cases++
		model := resourceData("test.model")
		modelParent2 := `{"name":"parent2","child":{"rid":"test.model"}}`
		modelDelayed := `{"name":"delayed"}`
		modelDelayedParent := `{"name":"delayedparent","child":{"rid":"test.model"},"delayed":{"rid":"test.model.delayed"}}`

		c := s.Connect()
		// parent -> test.model
		subscribeToTestModelParent(t, s, c, false)
		// parent2 -> test.model
		subscribeToCustomResource(t, s, c, "test.model.parent2", resource{typeModel, modelParent2, nil})

		// Unsubscribe first parent; test.model still held through parent2.
		c.Request("unsubscribe.test.model.parent", nil).GetResponse(t)

		creq := c.Request("subscribe.test.model.delayedparent", nil)
		mreqs := s.GetParallelRequests(t, 2)
		mreqs.GetRequest(t, "access.test.model.delayedparent").RespondSuccess(json.RawMessage(`{"get":true}`))
		mreqs.GetRequest(t, "get.test.model.delayedparent").RespondSuccess(json.RawMessage(`{"model":` + modelDelayedParent + `}`))
		mreqsecond := s.GetRequest(t)

		// Unsubscribe the second parent. Client drops test.model.
		c.Request("unsubscribe.test.model.parent2", nil).GetResponse(t)

		mreqsecond.RespondSuccess(json.RawMessage(`{"model":` + modelDelayed + `}`))

		resp := creq.GetResponse(t)
		var got struct {
			Models map[string]json.RawMessage `json:"models"`
		}
		b, _ := json.Marshal(resp.Result)
		json.Unmarshal(b, &got)
		if _, ok := got.Models["test.model"]; !ok {
			out, _ := json.Marshal(map[string]interface{}{
				"scenario": "two sent parents reference test.model; the first is unsubscribed; a third parent (still loading) references test.model; the second parent is unsubscribed (the client drops test.model); the third parent finishes loading",
				"expected": "the response for the third parent carries test.model", "got_models": got.Models, "model": model,
			})
			fmt.Printf("REPLAY-FAIL %s\n", out)
			t.Errorf("dangling reference: test.model not delivered")
		}
	})
}

