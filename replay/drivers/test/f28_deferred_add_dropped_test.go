package test

import (
	"encoding/json"
	"fmt"
	"testing"
	"time"
)

// Replay driver for obligation server.(*Subscription).processCollectionEvent#1 (C02, C03).
func TestReplay_DeferredAddAfterCollectionDropped(t *testing.T) {
	fmt.Printf("REPLAY-CASES 1\n")
	runTest(t, func(s *Session) {
		col := `["a"]`
		r := `{"name":"r","col":{"rid":"test.collection.s"}}`
		p := `{"name":"p","col":{"rid":"test.collection.s"},"delayed":{"rid":"test.model.delayed"}}`
		x := `{"name":"x"}`
		delayed := `{"name":"delayed"}`

		c := s.Connect()

		// Subscribe to r -> s
		creq := c.Request("subscribe.test.model.r", nil)
		mreqs := s.GetParallelRequests(t, 2)
		mreqs.GetRequest(t, "access.test.model.r").RespondSuccess(json.RawMessage(`{"get":true}`))
		mreqs.GetRequest(t, "get.test.model.r").RespondSuccess(json.RawMessage(`{"model":` + r + `}`))
		s.GetRequest(t).AssertSubject(t, "get.test.collection.s").RespondSuccess(json.RawMessage(`{"collection":` + col + `}`))
		creq.GetResponse(t).AssertResult(t, json.RawMessage(`{"models":{"test.model.r":`+r+`},"collections":{"test.collection.s":`+col+`}}`))

		// Subscribe to p -> s, delayed (delayed)
		creqp := c.Request("subscribe.test.model.p", nil)
		mreqs = s.GetParallelRequests(t, 2)
		mreqs.GetRequest(t, "access.test.model.p").RespondSuccess(json.RawMessage(`{"get":true}`))
		mreqs.GetRequest(t, "get.test.model.p").RespondSuccess(json.RawMessage(`{"model":` + p + `}`))
		mreqdelayed := s.GetRequest(t).AssertSubject(t, "get.test.model.delayed")

		// Add event on s with a new reference, whose get is delayed
		s.ResourceEvent("test.collection.s", "add", json.RawMessage(`{"idx":1,"value":{"rid":"test.model.x"}}`))
		mreqx := s.GetRequest(t).AssertSubject(t, "get.test.model.x")

		// Unsubscribe r; the client drops r and s
		c.Request("unsubscribe.test.model.r", nil).GetResponse(t)

		// x arrives
		mreqx.RespondSuccess(json.RawMessage(`{"model":` + x + `}`))

		// No add event may be sent for s, which the client does not hold
		select {
		case ev := <-c.evs:
			out, _ := json.Marshal(map[string]string{
				"scenario": "r->s sent; p->s loading; add event on s with a reference to x (loading); unsubscribe r (the client drops s); x arrives",
				"expected": "no event for s, which the client does not hold", "got": "event " + ev.Event})
			fmt.Printf("REPLAY-FAIL %s\n", out)
			t.Errorf("stray event %s", ev.Event)
			return
		case <-time.After(100 * time.Millisecond):
		}

		// delayed arrives; the response for p must contain s with x, and x itself
		mreqdelayed.RespondSuccess(json.RawMessage(`{"model":` + delayed + `}`))
		creqp.GetResponse(t).AssertResult(t, json.RawMessage(`{"models":{"test.model.p":`+p+`,"test.model.delayed":`+delayed+`,"test.model.x":`+x+`},"collections":{"test.collection.s":["a",{"rid":"test.model.x"}]}}`))
	})
}
