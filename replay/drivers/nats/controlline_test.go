//go:build verif

package nats

import (
	"bufio"
	"encoding/json"
	"fmt"
	"io"
	"net"
	"strconv"
	"strings"
	"sync"
	"testing"
	"time"
)

type replayLog struct{}

func (replayLog) Log(string)    {}
func (replayLog) Error(string)  {}
func (replayLog) Debug(string)  {}
func (replayLog) Trace(string)  {}
func (replayLog) IsDebug() bool { return false }
func (replayLog) IsTrace() bool { return false }

// Scenario for nats.(*Client).SendRequest:callsite[c.mq.PublishRequest#1].pre[1] (C18): the real
// adapter and the real nats.go client talk to a minimal in-test NATS server that records the
// argument of every PUB and SUB control line. A subject that passes the adapter's guard must
// produce a control line argument of at most MAX_CONTROL_LINE_SIZE (4096) bytes - a longer line
// makes a real nats-server close the connection.
func TestReplay_ControlLineFits(t *testing.T) {
	ln, err := net.Listen("tcp", "127.0.0.1:0")
	if err != nil {
		t.Fatal(err)
	}
	defer ln.Close()
	var mu sync.Mutex
	var lines []string
	go func() {
		for {
			c, err := ln.Accept()
			if err != nil {
				return
			}
			go func(c net.Conn) {
				defer c.Close()
				c.Write([]byte(`INFO {"server_id":"replay","version":"2.6.6","proto":1,"headers":true,"max_payload":1048576}` + "\r\n"))
				r := bufio.NewReaderSize(c, 1<<16)
				for {
					line, err := r.ReadString('\n')
					if err != nil {
						return
					}
					line = strings.TrimRight(line, "\r\n")
					op := strings.ToUpper(strings.SplitN(line, " ", 2)[0])
					switch op {
					case "PING":
						c.Write([]byte("PONG\r\n"))
					case "PUB", "HPUB", "SUB":
						mu.Lock()
						lines = append(lines, line)
						mu.Unlock()
						if op != "SUB" {
							f := strings.Fields(line)
							n, _ := strconv.Atoi(f[len(f)-1])
							io.ReadFull(r, make([]byte, n+2))
						}
					}
				}
			}(c)
		}
	}()
	c := &Client{URL: "nats://" + ln.Addr().String(), RequestTimeout: 200 * time.Millisecond, Logger: replayLog{}, BufferSize: 64}
	if err := c.Connect(); err != nil {
		t.Fatal(err)
	}
	defer c.Close()
	payload := []byte(`{}`)
	for l := 4055; l <= 4075; l++ {
		subj := strings.Repeat("a", l)
		done := make(chan error, 1)
		c.SendRequest(subj, payload, func(_ string, _ []byte, err error) { done <- err })
		select {
		case <-done:
		case <-time.After(400 * time.Millisecond):
		}
	}
	c.mq.Flush()
	time.Sleep(100 * time.Millisecond)
	fails := 0
	mu.Lock()
	defer mu.Unlock()
	for _, line := range lines {
		arg := strings.SplitN(line, " ", 2)[1]
		if len(arg) > 4096 {
			fails++
			if fails <= 3 {
				f := strings.Fields(line)
				b, _ := json.Marshal(map[string]interface{}{"func": "SendRequest", "subject_len": len(f[1]), "payload_len": len(payload),
					"control_line_op": f[0], "control_line_arg_len": len(arg), "limit": 4096})
				fmt.Printf("REPLAY-FAIL %s\n", b)
			}
		}
	}
	if fails > 0 {
		t.Fatalf("%d control lines exceed MAX_CONTROL_LINE_SIZE", fails)
	}
}
