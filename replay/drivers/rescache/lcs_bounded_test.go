//go:build verif

package rescache

import (
	"encoding/json"
	"fmt"
	"testing"

	"github.com/resgateio/resgate/server/codec"
)

type lcsLogger struct{}

func (lcsLogger) Log(string)    {}
func (lcsLogger) Error(string)  {}
func (lcsLogger) Debug(string)  {}
func (lcsLogger) Trace(string)  {}
func (lcsLogger) IsDebug() bool { return false }
func (lcsLogger) IsTrace() bool { return false }

// Bounded stand-in (NOT a proof) for the collection diff of C12: for every pair of collections
// a, b with len <= 5 over a 3-value alphabet (all duplicate patterns), the events derived by the
// real lcs(a, b), applied in order to a by the real handleEventRemove/handleEventAdd, yield
// exactly b with every index in range, and equal inputs yield no event.
func TestBounded_LCSApply(t *testing.T) {
	alpha := []codec.Value{
		{RawMessage: json.RawMessage(`1`), Type: codec.ValueTypePrimitive},
		{RawMessage: json.RawMessage(`2`), Type: codec.ValueTypePrimitive},
		{RawMessage: json.RawMessage(`3`), Type: codec.ValueTypePrimitive},
	}
	var seqs [][]codec.Value
	var gen func(cur []codec.Value, n int)
	gen = func(cur []codec.Value, n int) {
		seqs = append(seqs, append([]codec.Value(nil), cur...))
		if n == 0 {
			return
		}
		for _, v := range alpha {
			gen(append(cur, v), n-1)
		}
	}
	gen(nil, 5)
	c := &Cache{logger: lcsLogger{}}
	cases, fails := 0, 0
	str := func(vs []codec.Value) string {
		s := ""
		for _, v := range vs {
			s += string(v.RawMessage)
		}
		return s
	}
	for _, a := range seqs {
		for _, b := range seqs {
			cases++
			e := &EventSubscription{ResourceName: "test.collection", cache: c}
			rs := &ResourceSubscription{e: e, state: stateCollection, collection: &Collection{Values: append([]codec.Value(nil), a...)}}
			events := lcs(a, b)
			ok := true
			if str(a) == str(b) && len(events) != 0 {
				ok = false
			}
			for _, ev := range events {
				var applied bool
				switch ev.Event {
				case "add":
					applied = rs.handleEventAdd(ev)
				case "remove":
					applied = rs.handleEventRemove(ev)
				}
				if !applied {
					ok = false
					break
				}
			}
			if ok && str(rs.collection.Values) != str(b) {
				ok = false
			}
			if !ok {
				fails++
				if fails <= 3 {
					out, _ := json.Marshal(map[string]interface{}{"func": "lcs", "a": str(a), "b": str(b), "events": len(events), "result": str(rs.collection.Values)})
					fmt.Printf("REPLAY-FAIL %s\n", out)
				}
			}
		}
	}
	fmt.Printf("REPLAY-CASES %d\n", cases)
	if fails > 0 {
		t.Fatalf("%d of %d pairs fail", fails, cases)
	}
}
