//go:build verif

package rescache

import (
	"encoding/json"
	"errors"
	"fmt"
	"testing"
	"time"

	"github.com/resgateio/resgate/server/mq"
)

type replayLogger struct{}

func (replayLogger) Log(string)    {}
func (replayLogger) Error(string)  {}
func (replayLogger) Debug(string)  {}
func (replayLogger) Trace(string)  {}
func (replayLogger) IsDebug() bool { return false }
func (replayLogger) IsTrace() bool { return false }

type replayUnsub struct{}

func (replayUnsub) Unsubscribe() error { return nil }

// replayMQ is a fake messaging client: requests are recorded, event subscriptions can be made to fail.
type replayMQ struct {
	failSubscribe bool
	reqs          chan func(payload []byte, err error)
	events        map[string]mq.Response
}

func (m *replayMQ) Connect() error { return nil }
func (m *replayMQ) SendRequest(subject string, payload []byte, cb mq.Response) {
	m.reqs <- func(p []byte, err error) { go cb(subject, p, err) }
}
func (m *replayMQ) Subscribe(ns string, cb mq.Response) (mq.Unsubscriber, error) {
	if m.failSubscribe && ns != "system" {
		return nil, errors.New("subscribe failed")
	}
	m.events[ns] = cb
	return replayUnsub{}, nil
}
func (m *replayMQ) Close()                        {}
func (m *replayMQ) IsClosed() bool                { return false }
func (m *replayMQ) SetClosedHandler(func(error)) {}

type replaySub struct {
	loaded chan *ResourceSubscription
	events chan *ResourceEvent
}

func (s *replaySub) CID() string { return "cid" }
func (s *replaySub) Loaded(rs *ResourceSubscription, err error) {
	s.loaded <- rs
}
func (s *replaySub) Event(ev *ResourceEvent) { s.events <- ev }
func (s *replaySub) ResourceName() string    { return "test.model" }
func (s *replaySub) ResourceQuery() string   { return "" }
func (s *replaySub) Reaccess(t *Throttle)    {}

func newReplayCache(m *replayMQ, delay time.Duration) *Cache {
	c := NewCache(m, 2, 0, delay, replayLogger{}, nil)
	if err := c.Start(); err != nil {
		panic(err)
	}
	return c
}

// Scenario for rescache.(*Cache).getSubscription:post[6]/post[7] (C09): a failed MQ subscribe
// must not leave a use of the cache entry behind.
func TestReplay_GetSubscriptionErrorLeak(t *testing.T) {
	m := &replayMQ{failSubscribe: true, reqs: make(chan func([]byte, error), 10), events: map[string]mq.Response{}}
	c := newReplayCache(m, time.Hour)
	_, err := c.getSubscription("test.model", true)
	if err == nil {
		t.Fatal("expected an error")
	}
	c.mu.Lock()
	e := c.eventSubs["test.model"]
	var count int64 = 0
	if e != nil {
		count = e.count
	}
	c.mu.Unlock()
	if e != nil && count != 0 {
		b, _ := json.Marshal(map[string]interface{}{
			"scenario": "mq.Subscribe(\"event.test.model\") fails inside getSubscription(\"test.model\", true)",
			"expected": "no use of the cache entry is left (count 0 or entry absent)", "got_count": count,
		})
		fmt.Printf("REPLAY-FAIL %s\n", b)
		t.Errorf("use count leaked: %d", count)
	}
}

// Scenario for rescache.(*ResourceSubscription).Unsubscribe#1:post[1] (C09): a delete event
// removes every subscriber and releases their uses; the subscriber's own Unsubscribe, arriving
// afterwards (it had not processed the event yet), must not release a use again.
func TestReplay_UnsubscribeAfterDeleteEvent(t *testing.T) {
	m := &replayMQ{reqs: make(chan func([]byte, error), 10), events: map[string]mq.Response{}}
	c := newReplayCache(m, time.Hour)
	s := &replaySub{loaded: make(chan *ResourceSubscription, 1), events: make(chan *ResourceEvent, 4)}
	c.Subscribe(s, nil)
	respond := <-m.reqs
	respond([]byte(`{"result":{"model":{"foo":"bar"}}}`), nil)
	rs := <-s.loaded
	if rs == nil {
		t.Fatal("not loaded")
	}
	m.events["event.test.model"]("event.test.model.delete", nil, nil)
	<-s.events
	time.Sleep(20 * time.Millisecond)
	rs.Unsubscribe(s)
	time.Sleep(50 * time.Millisecond)
	c.mu.Lock()
	e := c.eventSubs["test.model"]
	var count int64
	if e != nil {
		e.mu.Lock()
		count = e.count
		e.mu.Unlock()
	}
	c.mu.Unlock()
	if count < 0 {
		b, _ := json.Marshal(map[string]interface{}{
			"scenario": "subscribe; get answered; event.test.model.delete; then the subscriber's Unsubscribe",
			"expected": "use count 0", "got_count": count,
		})
		fmt.Printf("REPLAY-FAIL %s\n", b)
		t.Errorf("use count negative: %d", count)
	}
}
