//go:build verif

package server

import (
	"encoding/json"
	"fmt"
	"testing"
)

// Bounded search for an input on which the real matchesOrigins disagrees with its executable
// specification (SpecMatchesOrigins). Bound: one list entry and an origin, each of length <= 3
// over the alphabets below (entries contain no upper case letters, as config guarantees).
func TestReplay_matchesOrigins(t *testing.T) {
	entryAlpha := []string{"a", "b", "\xff", "\xfe", "\xc3", "\xa9"}
	originAlpha := []string{"a", "A", "b", "\xff", "\xfe", "\xc3", "\xa9"}
	var gen func(alpha []string, n int) []string
	gen = func(alpha []string, n int) []string {
		out := []string{""}
		prev := []string{""}
		for i := 0; i < n; i++ {
			var next []string
			for _, p := range prev {
				for _, a := range alpha {
					next = append(next, p+a)
				}
			}
			out = append(out, next...)
			prev = next
		}
		return out
	}
	fails := 0
	cases := 0
	for _, s := range gen(entryAlpha, 3) {
		for _, o := range gen(originAlpha, 3) {
			cases++
			got := matchesOrigins([]string{s}, o)
			want := SpecMatchesOrigins([]string{s}, o)
			if got != want {
				fails++
				if fails <= 5 {
					b, _ := json.Marshal(map[string]interface{}{"func": "matchesOrigins", "os": []string{fmt.Sprintf("%q", s)}, "o": fmt.Sprintf("%q", o), "got": got, "want": want})
					fmt.Printf("REPLAY-FAIL %s\n", b)
				}
			}
		}
	}
	fmt.Printf("REPLAY-CASES %d\n", cases)
	if fails > 0 {
		t.Fatalf("%d disagreements", fails)
	}
}
