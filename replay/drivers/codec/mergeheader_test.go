//go:build verif

package codec

import (
	"encoding/json"
	"fmt"
	"net/http"
	"reflect"
	"strings"
	"testing"
)

// Bounded search for obligations of codec.MergeHeader (C17): for every key of a small set of
// canonical header names, a header present in both a and b. Protected headers (Content-Type,
// the CORS allow headers, every Sec-Websocket-* header) must keep the value of a, Set-Cookie
// must accumulate, every other header takes the value of b.
func TestReplay_MergeHeader(t *testing.T) {
	protected := func(k string) bool {
		return k == "Content-Type" || k == "Access-Control-Allow-Origin" || k == "Access-Control-Allow-Credentials" || strings.HasPrefix(k, "Sec-Websocket-")
	}
	keys := []string{"Content-Type", "Access-Control-Allow-Origin", "Access-Control-Allow-Credentials",
		"Sec-Websocket-Extensions", "Sec-Websocket-Protocol", "Sec-Websocket-Accept", "Sec-Websocket-Key", "Sec-Websocket-Version",
		"Set-Cookie", "X-Custom", "Location", "Vary"}
	fails := 0
	for _, k := range keys {
		a := http.Header{k: {"from-gateway"}}
		b := http.Header{k: {"from-service"}}
		MergeHeader(a, b)
		var want []string
		switch {
		case protected(k):
			want = []string{"from-gateway"}
		case k == "Set-Cookie":
			want = []string{"from-gateway", "from-service"}
		default:
			want = []string{"from-service"}
		}
		if !reflect.DeepEqual([]string(a[k]), want) {
			fails++
			out, _ := json.Marshal(map[string]interface{}{"func": "MergeHeader", "key": k, "a": []string{"from-gateway"}, "b": []string{"from-service"}, "got": a[k], "want": want})
			fmt.Printf("REPLAY-FAIL %s\n", out)
		}
	}
	if fails > 0 {
		t.Fatalf("%d disagreements", fails)
	}
}
