package main

import (
	"fmt"
	"go/ast"
	"go/token"
	"go/types"
	"sort"
	"strings"
)

// Proc is the verification of one procedure (function or closure).
type Proc struct {
	ctx      *Ctx
	fi       *FuncInfo
	contract *Contract
	decls    []string
	obls     []*Obligation
	fresh    int
	trivial  int
	steps    int

	heapEntry map[string]*Term
	heapOrder []string
	entry     *State
	frames    []*frame
	maxStates int

	boxed         map[*types.Var]bool
	capturedByRef map[*types.Var]bool
	closureOf     map[types.Object]*ClosureVal
	rangeIdx      map[string]*types.Var
	visited       map[string]*types.Var
	iters         map[string]*types.Var
	visitedSort   map[*types.Var]Sort
	nameCount     map[string]int
	params        []*types.Var
	recvObj       *types.Var
	resultObjs    []*types.Var
	exits         int
	cbParams      map[string]*types.Var
	err           error
	probes        []*Obligation
	callProbes    []*Obligation
	loopFrame     map[string]map[string]bool
	asyncCall     bool
	pureDepth     int
	heapReads     int
	forceMerge    bool
	havocFacts    []havocFact
	entryFacts    []*Term
	lets          map[string]Val
	cbAlias       map[*types.Var]*types.Var
	assertFired   map[*Clause]bool
	inDevirt      bool
	lenient       bool
	havocEpoch    int
}

func newProc(c *Ctx, fi *FuncInfo) *Proc {
	return &Proc{ctx: c, fi: fi, contract: c.contracts[fi.Key],
		heapEntry: map[string]*Term{}, maxStates: 600,
		boxed: map[*types.Var]bool{}, capturedByRef: map[*types.Var]bool{},
		closureOf: map[types.Object]*ClosureVal{}, rangeIdx: map[string]*types.Var{}, loopFrame: map[string]map[string]bool{},
		visited: map[string]*types.Var{}, iters: map[string]*types.Var{}, visitedSort: map[*types.Var]Sort{},
		nameCount: map[string]int{}, cbParams: map[string]*types.Var{}, lets: map[string]Val{}, cbAlias: map[*types.Var]*types.Var{}, assertFired: map[*Clause]bool{}}
}

// ordinals: per root declaration, nodes numbered per syntactic category in source order.
type ordTable struct {
	idx map[ast.Node]int
}

var ordCache = map[ast.Node]*ordTable{}

func category(n ast.Node) string {
	switch n.(type) {
	case *ast.IndexExpr:
		return "index"
	case *ast.SliceExpr:
		return "slice"
	case *ast.SelectorExpr:
		return "sel"
	case *ast.StarExpr:
		return "star"
	case *ast.CallExpr:
		return "call"
	case *ast.TypeAssertExpr:
		return "assert"
	case *ast.BinaryExpr:
		return "bin"
	case *ast.ForStmt, *ast.RangeStmt:
		return "loop"
	}
	return "node"
}

func ordinalsFor(root ast.Node) *ordTable {
	if t, ok := ordCache[root]; ok {
		return t
	}
	t := &ordTable{idx: map[ast.Node]int{}}
	counts := map[string]int{}
	ast.Inspect(root, func(n ast.Node) bool {
		if n == nil {
			return true
		}
		c := category(n)
		if c == "node" {
			return true
		}
		counts[c]++
		t.idx[n] = counts[c]
		return true
	})
	ordCache[root] = t
	return t
}

func (fi *FuncInfo) root() *FuncInfo {
	r := fi
	for r.Parent != nil {
		r = r.Parent
	}
	return r
}

func (p *Proc) obName(kind string, n ast.Node) string {
	fr := p.cur()
	root := fr.fi.root()
	t := ordinalsFor(root.Decl)
	base := fmt.Sprintf("%s%s[%s%d]", fr.prefix, kind, category(n), t.idx[n])
	return base
}

func (p *Proc) callOrdinal(call *ast.CallExpr) int {
	// ordinal among calls with the same callee text inside the root declaration
	fr := p.cur()
	root := fr.fi.root()
	name := calleeText(call)
	n := 0
	found := 0
	ast.Inspect(root.Decl, func(nd ast.Node) bool {
		if c, ok := nd.(*ast.CallExpr); ok {
			if calleeText(c) == name {
				n++
				if c == call {
					found = n
				}
			}
		}
		return true
	})
	return found
}

// loopOrdinal numbers loops inside the procedure body (function literals excluded).
func (p *Proc) loopOrdinal(fr *frame, loop ast.Node) int {
	n, found := 0, 0
	ast.Inspect(fr.fi.Body(), func(nd ast.Node) bool {
		if _, ok := nd.(*ast.FuncLit); ok {
			return false
		}
		switch nd.(type) {
		case *ast.ForStmt, *ast.RangeStmt:
			n++
			if nd == loop {
				found = n
			}
		}
		return true
	})
	return found
}

// boxedIn finds local variables whose address is taken.
var boxedCache = map[*FuncInfo]map[*types.Var]bool{}

func (p *Proc) boxedIn(fi *FuncInfo) map[*types.Var]bool {
	if m, ok := boxedCache[fi]; ok {
		return m
	}
	m := map[*types.Var]bool{}
	info := fi.Pkg.TypesInfo
	ast.Inspect(fi.Body(), func(n ast.Node) bool {
		if u, ok := n.(*ast.UnaryExpr); ok && u.Op == token.AND {
			if id, ok := ast.Unparen(u.X).(*ast.Ident); ok {
				if v, ok := info.Uses[id].(*types.Var); ok {
					m[v] = true
				}
			}
		}
		// x.M() with a pointer receiver on a variable of a library struct type (strings.Builder,
		// bytes.Buffer): the variable lives in a cell so that every call sees the same address
		if call, ok := n.(*ast.CallExpr); ok {
			if se, ok := ast.Unparen(call.Fun).(*ast.SelectorExpr); ok {
				if id, ok := ast.Unparen(se.X).(*ast.Ident); ok {
					if v, ok := info.Uses[id].(*types.Var); ok && isBuilderType(v.Type()) {
						if sel := info.Selections[se]; sel != nil && sel.Kind() == types.MethodVal {
							if fn, ok := sel.Obj().(*types.Func); ok {
								if rs := fn.Type().(*types.Signature).Recv(); rs != nil && isPointer(rs.Type()) {
									m[v] = true
								}
							}
						}
					}
				}
			}
		}
		return true
	})
	boxedCache[fi] = m
	return m
}

func (p *Proc) boxFrame(fi *FuncInfo) {
	for v := range p.boxedIn(fi) {
		p.boxed[v] = true
	}
}

// ---------------------------------------------------------------------------

// Run symbolically executes the procedure and collects obligations.
func (p *Proc) Run() (err error) {
	defer func() {
		if r := recover(); r != nil {
			if ve, ok := r.(verr); ok {
				err = fmt.Errorf("%s: %s", p.fi.Name, ve.msg)
				return
			}
			panic(r)
		}
	}()
	fi := p.fi
	info := fi.Pkg.TypesInfo
	st := newState()
	fr := &frame{fi: fi, info: info, pkg: fi.Pkg.Types, contract: p.contract}
	p.frames = []*frame{fr}
	p.boxFrame(fi)

	bindParam := func(id *ast.Ident) *types.Var {
		if id == nil || id.Name == "_" {
			return nil
		}
		obj, _ := info.Defs[id].(*types.Var)
		if obj == nil {
			return nil
		}
		v := Val{T: p.freshConst("p_"+obj.Name(), p.ctx.sortOf(obj.Type())), Typ: obj.Type()}
		p.wfAssume(st, v)
		p.allocAssume(st, v)
		if p.boxed[obj] {
			addr := p.alloc(st, "box_"+obj.Name())
			st.vars[obj] = addr
			p.storeBoxed(p.ec(st), obj, addr, v)
		} else {
			st.vars[obj] = v.T
		}
		return obj
	}
	if fi.Decl != nil && fi.Decl.Recv != nil && len(fi.Decl.Recv.List[0].Names) > 0 {
		p.recvObj = bindParam(fi.Decl.Recv.List[0].Names[0])
	}
	for _, fld := range fi.FuncType().Params.List {
		for _, nm := range fld.Names {
			if o := bindParam(nm); o != nil {
				p.params = append(p.params, o)
				if _, ok := o.Type().Underlying().(*types.Signature); ok {
					p.cbParams[o.Name()] = o
				}
			}
		}
	}
	if fi.FuncType().Results != nil {
		ri := 0
		for _, fld := range fi.FuncType().Results.List {
			if len(fld.Names) == 0 {
				t := info.TypeOf(fld.Type)
				o := types.NewVar(token.NoPos, fi.Pkg.Types, fmt.Sprintf("$ret%d", ri), t)
				fr.resObjs = append(fr.resObjs, o)
				ri++
				continue
			}
			for _, nm := range fld.Names {
				obj := info.Defs[nm].(*types.Var)
				st.vars[obj] = p.ctx.zeroOf(obj.Type())
				fr.named = append(fr.named, obj)
				fr.resObjs = append(fr.resObjs, obj)
				ri++
			}
		}
	}
	p.resultObjs = fr.resObjs
	// closures: captured variables are arbitrary values at the time the closure runs
	if fi.Lit != nil {
		for _, o := range freeVars(info, fi.Lit) {
			if _, ok := st.vars[o]; ok {
				continue
			}
			v := Val{T: p.freshConst("c_"+o.Name(), p.ctx.sortOf(o.Type())), Typ: o.Type()}
			p.wfAssume(st, v)
			p.allocAssume(st, v)
			st.vars[o] = v.T
			if _, ok := o.Type().Underlying().(*types.Signature); ok {
				p.cbParams[o.Name()] = o
			}
		}
	}
	for _, o := range p.cbParams {
		st.resolved[o] = IntLit(0)
	}
	// assume preconditions
	if p.contract != nil {
		p.lenient = fi.Lit != nil
		for _, cl := range p.contract.ByKind("requires") {
			ec := p.exitEc(st)
			ec.where = cl.Where
			st.assume(p.eval(ec, cl.Expr).T)
		}
		// data-structure invariants assumed on entry (listed as assumptions, not proved by callers)
		for _, cl := range p.contract.ByKind("assumes") {
			ec := p.exitEc(st)
			ec.where = cl.Where
			st.assume(p.eval(ec, cl.Expr).T)
			p.ctx.notes["data-structure invariant assumed on entry of "+p.fi.Name+": "+cl.Text] = true
		}
		p.lenient = false
		p.closureEntryFacts(st)
	}
	p.entry = st.clone()
	p.probe(st, "entry")
	f := p.execBlock([]*State{st}, fi.Body().List)
	for _, s := range f.norm {
		p.runDefers(s, fr)
		p.atExit(s, fi.Body())
	}
	if len(f.brk) > 0 || len(f.cont) > 0 {
		p.failf(fi.Body(), "dangling break/continue")
	}
	if p.contract != nil {
		for _, cl := range p.contract.ByKind("assert") {
			if !p.assertFired[cl] {
				p.failf(fi.Body(), "%s: contract-unbound: no call site %s", cl.Where, cl.Param)
			}
		}
	}
	return nil
}

// probe records a vacuity probe: the path condition must be satisfiable.
func (p *Proc) probe(st *State, what string) {
	ob := &Obligation{Name: p.fi.Name + ":vacuity." + what, Kind: "vacuity", Proc: p.fi.Name,
		PC: append([]*Term(nil), st.pc...), Goal: TFalse, Decls: &p.decls, ExpectSat: true}
	p.probes = append(p.probes, ob)
}

func (p *Proc) allocAssume(st *State, v Val) {
	switch v.Typ.Underlying().(type) {
	case *types.Pointer, *types.Map:
		al := p.heapGet(st, "AL:", ArrSort(SInt, SBool))
		st.assume(Or(Eq(v.T, IntLit(0)), Sel(al, v.T)))
	}
}

func freeVars(info *types.Info, lit *ast.FuncLit) []*types.Var {
	seen := map[*types.Var]bool{}
	var out []*types.Var
	ast.Inspect(lit.Body, func(n ast.Node) bool {
		id, ok := n.(*ast.Ident)
		if !ok {
			return true
		}
		v, ok := info.Uses[id].(*types.Var)
		if !ok || v.IsField() || seen[v] {
			return true
		}
		if v.Pkg() != nil && v.Parent() == v.Pkg().Scope() {
			return true
		}
		if v.Pos() >= lit.Pos() && v.Pos() < lit.End() {
			return true
		}
		seen[v] = true
		out = append(out, v)
		return true
	})
	sort.Slice(out, func(i, j int) bool { return out[i].Pos() < out[j].Pos() })
	return out
}

// exitEc is the evaluation context of requires/ensures clauses of the procedure itself.
func (p *Proc) exitEc(st *State) *ectx {
	fi := p.fi
	ec := &ectx{st: st, spec: true, old: p.entry, pkg: fi.Pkg.Types}
	ec.scope = fi.Pkg.TypesInfo.Scopes[fi.FuncType()]
	ec.pos = fi.Body().Rbrace
	return ec
}

// atExit checks postconditions, resolution counters and the frame at a return point.
func (p *Proc) atExit(st *State, n ast.Node) {
	if p.dead(st) {
		return
	}
	p.exits++
	var results []Val
	for _, ro := range p.resultObjs {
		results = append(results, Val{T: st.vars[ro], Typ: ro.Type()})
	}
	if p.contract == nil {
		return
	}
	if p.exits <= 4 {
		p.probe(st, fmt.Sprintf("exit%d", p.exits))
	}
	i := 0
	for _, cl := range p.contract.Clauses {
		switch cl.Kind {
		case "ensures":
			i++
			ec := p.exitEc(st)
			ec.results = results
			ec.where = cl.Where
			// entry values of parameters for old(...)
			g := p.eval(ec, cl.Expr)
			p.oblige(st, "post", fmt.Sprintf("post[%d]", i), cl.Tags, g.T, cl.Where)
		case "resolves":
			o := p.cbParams[cl.Param]
			if o == nil {
				p.failf(n, "%s: resolves: no callback named %s", cl.Where, cl.Param)
			}
			cnt := st.resolved[o]
			if cnt == nil {
				cnt = IntLit(0)
			}
			var g *Term
			switch cl.Arg {
			case "exactly-once":
				g = Eq(cnt, IntLit(1))
			case "at-most-once":
				g = Le(cnt, IntLit(1))
			case "if-result":
				if len(results) == 0 || results[0].T.Sort != SBool {
					p.failf(n, "%s: resolves if-result needs a boolean first result", cl.Where)
				}
				g = Ite(results[0].T, Eq(cnt, IntLit(1)), Eq(cnt, IntLit(0)))
			default:
				p.failf(n, "%s: unknown resolves mode %s", cl.Where, cl.Arg)
			}
			p.oblige(st, "resolves", fmt.Sprintf("resolves[%s]", cl.Param), cl.Tags, g, cl.Where)
		}
	}
	p.checkFrame(st, n)
}

// ---------------------------------------------------------------------------
// Spec-only calls

func (p *Proc) evalSpecCall(ec *ectx, name string, call *ast.CallExpr) (Val, bool) {
	boolT := types.Typ[types.Bool]
	switch name {
	case "$implies":
		a := p.eval(ec, call.Args[0])
		b := p.eval(ec, call.Args[1])
		return Val{T: Imp(a.T, b.T), Typ: boolT}, true
	case "$forall", "$exists":
		lit := call.Args[0].(*ast.FuncLit)
		saved := ec.st.bound
		nb := map[string]Val{}
		for k, v := range saved {
			nb[k] = v
		}
		var binders []string
		var guards []*Term
		for _, fld := range lit.Type.Params.List {
			t := p.resolveType(ec, fld.Type)
			if t == nil {
				p.failf(call, "%s: unknown type in quantifier", ec.where)
			}
			s := p.ctx.sortOf(t)
			for _, nm := range fld.Names {
				p.fresh++
				vn := fmt.Sprintf("%s!q%d", nm.Name, p.fresh)
				binders = append(binders, fmt.Sprintf("(%s %s)", vn, s))
				nb[nm.Name] = Val{T: T(vn, s), Typ: t}
				if isUnsigned(t) {
					guards = append(guards, Le(IntLit(0), T(vn, s)))
				}
			}
		}
		ec.st.bound = nb
		body := p.eval(ec, lit.Body.List[0].(*ast.ReturnStmt).Results[0])
		var pats []string
		for _, tr := range call.Args[1:] {
			var terms []string
			for _, a := range tr.(*ast.CallExpr).Args {
				terms = append(terms, p.eval(ec, a).T.S)
			}
			pats = append(pats, ":pattern ("+strings.Join(terms, " ")+")")
		}
		ec.st.bound = saved
		bt := body.T
		q := "forall"
		if name == "$exists" {
			q = "exists"
			bt = And(append(guards, bt)...)
		} else if len(guards) > 0 {
			bt = Imp(And(guards...), bt)
		}
		inner := bt.S
		if len(pats) > 0 {
			inner = "(! " + inner + " " + strings.Join(pats, " ") + ")"
		}
		return Val{T: T(fmt.Sprintf("(%s (%s) %s)", q, strings.Join(binders, " "), inner), SBool), Typ: boolT}, true
	}
	if !ec.spec {
		return Val{}, false
	}
	if ec.atCallSite {
		switch name {
		case "callcount", "handed", "invoked", "spawncount", "sendcount":
			return Val{T: p.freshConst("callee_"+name, SInt), Typ: types.Typ[types.Int]}, true
		case "spawned":
			return Val{T: p.freshConst("callee_"+name, SInt), Typ: types.Typ[types.Int]}, true
		case "lastsent":
			return Val{T: p.freshConst("callee_"+name, SIface), Typ: types.NewInterfaceType(nil, nil)}, true
		}
	}
	if d, ok := p.ctx.dirs.Defines[name]; ok {
		return p.evalDefine(ec, d, call), true
	}
	switch name {
	case "old":
		if ec.old == nil {
			p.failf(call, "%s: old() has no pre-state here", ec.where)
		}
		o := ec.sub(ec.old)
		saved := ec.old.bound
		ec.old.bound = ec.st.bound
		v := p.eval(o, call.Args[0])
		ec.old.bound = saved
		return v, true
	case "has":
		m := p.eval(ec, call.Args[0])
		mt, ok := m.Typ.Underlying().(*types.Map)
		if !ok {
			p.failf(call, "%s: has() on non-map", ec.where)
		}
		k := p.convert(ec, p.eval(ec, call.Args[1]), mt.Key())
		if strings.HasPrefix(string(m.T.Sort), "(Array") {
			return Val{T: Sel(m.T, k), Typ: boolT}, true
		}
		_, in := p.mapLookup(ec, m, k)
		return Val{T: in, Typ: boolT}, true
	case "card":
		m := p.eval(ec, call.Args[0])
		mt := m.Typ.Underlying().(*types.Map)
		_, _, card := p.mapHeaps(ec.st, mt)
		return Val{T: Sel(card, m.T), Typ: types.Typ[types.Int]}, true
	case "spawned":
		return Val{T: p.heapGet(ec.st, "G:$spawned", SInt), Typ: types.Typ[types.Int]}, true
	case "wellformed":
		// an interface value that is not a nil pointer wrapped in an interface
		v := p.eval(ec, call.Args[0])
		return Val{T: Or(Not(IsIfacePtr(v.T)), Neq(IPtr(v.T), IntLit(0))), Typ: boolT}, true
	case "backing":
		// the backing array of a slice, as a value (for whole-array equalities)
		v := p.eval(ec, call.Args[0])
		sl, ok := v.Typ.Underlying().(*types.Slice)
		if !ok {
			p.failf(call, "%s: backing() needs a slice", ec.where)
		}
		h := p.sliceHeap(ec.st, sl.Elem())
		return Val{T: Sel(h, SlArr(v.T)), Typ: types.NewArray(sl.Elem(), 0)}, true
	case "callcount":
		// number of calls (through contracts) to functions with this name made by this procedure
		lit, ok := call.Args[0].(*ast.BasicLit)
		if !ok {
			p.failf(call, "%s: callcount needs a string literal", ec.where)
		}
		name := strings.Trim(lit.Value, "\"")
		return Val{T: p.heapGet(ec.st, "G:$calls:"+name, SInt), Typ: types.Typ[types.Int]}, true
	case "handed":
		return Val{T: p.heapGet(ec.st, "G:$handed", SInt), Typ: types.Typ[types.Int]}, true
	case "invoked":
		return Val{T: p.heapGet(ec.st, "G:$invoked", SInt), Typ: types.Typ[types.Int]}, true
	case "sendcount":
		return Val{T: p.heapGet(ec.st, "G:$sendcount", SInt), Typ: types.Typ[types.Int]}, true
	case "lastsent":
		return Val{T: p.heapGet(ec.st, "G:$lastsent", SIface), Typ: types.NewInterfaceType(nil, nil)}, true
	case "spawncount":
		return Val{T: p.heapGet(ec.st, "G:$spawncount", SInt), Typ: types.Typ[types.Int]}, true
	case "resolved":
		id := call.Args[0].(*ast.Ident)
		o := p.cbParams[id.Name]
		if _, isCalleeParam := ec.extra[id.Name]; isCalleeParam && (o == nil || ec.extra[id.Name].T != ec.st.vars[o]) {
			// a callee's own accounting, seen from a call site: unconstrained
			return Val{T: p.freshConst("resolved_"+id.Name, SInt), Typ: types.Typ[types.Int]}, true
		}
		if o == nil {
			p.failf(call, "%s: resolved(): no callback %s", ec.where, id.Name)
		}
		c := ec.st.resolved[o]
		if c == nil {
			c = IntLit(0)
		}
		return Val{T: c, Typ: types.Typ[types.Int]}, true
	case "ite":
		c := p.eval(ec, call.Args[0])
		a := p.eval(ec, call.Args[1])
		b := p.eval(ec, call.Args[2])
		bt := p.convert(ec, b, a.Typ)
		at := a.T
		if a.IsNil {
			at = p.convert(ec, a, b.Typ)
			return Val{T: Ite(c.T, at, b.T), Typ: b.Typ}, true
		}
		return Val{T: Ite(c.T, at, bt), Typ: a.Typ}, true
	case "typeis":
		v := p.eval(ec, call.Args[0])
		t := p.resolveType(ec, call.Args[1])
		if t == nil {
			p.failf(call, "%s: typeis(): unknown type", ec.where)
		}
		tag := IntLit(int64(p.ctx.typeTag(t)))
		if isPointer(t) {
			return Val{T: And(IsIfacePtr(v.T), Eq(ITag(v.T), tag)), Typ: boolT}, true
		}
		return Val{T: And(App("(_ is iface_box)", SBool, v.T), Eq(App("btag", SInt, v.T), tag)), Typ: boolT}, true
	case "fresh":
		// fresh(x): x was not allocated in the pre-state
		v := p.eval(ec, call.Args[0])
		if ec.old == nil {
			p.failf(call, "%s: fresh() has no pre-state", ec.where)
		}
		al := p.heapGet(ec.old, "AL:", ArrSort(SInt, SBool))
		return Val{T: And(Neq(v.T, IntLit(0)), Not(Sel(al, v.T))), Typ: boolT}, true
	case "allocated":
		// allocated(x): the object (pointer, map) x refers to exists in the current state
		v := p.eval(ec, call.Args[0])
		al := p.heapGet(ec.st, "AL:", ArrSort(SInt, SBool))
		return Val{T: Sel(al, v.T), Typ: boolT}, true
	case "zerobased":
		// zerobased(x): the slice x starts at the beginning of its backing array
		v := p.eval(ec, call.Args[0])
		return Val{T: Eq(T("(s_off "+v.T.S+")", SInt), IntLit(0)), Typ: boolT}, true
	case "held":
		// held(x.mu): how often the mutex field mu of the object x points to is locked by the
		// procedure so far (ghost; Lock adds one, Unlock takes one away)
		if k := p.mutexKey(ec, call.Args[0]); k != nil {
			h := p.heapGet(ec.st, "G:$held", ArrSort(SInt, SInt))
			return Val{T: Sel(h, k), Typ: types.Typ[types.Int]}, true
		}
		p.failf(call, "%s: held: the argument must be a mutex field of a pointer to a struct", ec.where)
	case "sbuf":
		// sbuf(b): the text accumulated in the strings.Builder / bytes.Buffer b points to (ghost)
		v := p.eval(ec, call.Args[0])
		h := p.heapGet(ec.st, "G:sbuf", ArrSort(SInt, SStr))
		return Val{T: Sel(h, v.T), Typ: types.Typ[types.String]}, true
	}
	return Val{}, false
}

// specFuncCall handles calls to Go functions inside specifications.
func (p *Proc) specFuncCall(ec *ectx, fn *types.Func, recv *Val, call *ast.CallExpr) Val {
	fi := p.ctx.funcByObj[fn]
	sig := fn.Type().(*types.Signature)
	var args []Val
	for i, a := range call.Args {
		v := p.eval(ec, a)
		if i < sig.Params().Len() {
			pt := sig.Params().At(i).Type()
			v = Val{T: p.convert(ec, v, pt), Typ: pt}
		}
		args = append(args, v)
	}
	if fi == nil || fi.Decl == nil || fi.Decl.Body == nil {
		// library function in a spec: use an uninterpreted function
		if lib := p.libFor(fn); lib != nil || true {
			name := "uf_" + sanitize(funcKeyOf(fn))
			var sorts []string
			var ts []*Term
			if recv != nil {
				sorts = append(sorts, string(recv.T.Sort))
				ts = append(ts, recv.T)
			}
			for _, a := range args {
				sorts = append(sorts, string(a.T.Sort))
				ts = append(ts, a.T)
			}
			rt := sig.Results().At(0).Type()
			rs := p.ctx.sortOf(rt)
			p.ctx.declare("uf:"+name, fmt.Sprintf("(declare-fun %s (%s) %s)", name, strings.Join(sorts, " "), rs))
			return Val{T: App(name, rs, ts...), Typ: rt}
		}
	}
	if strings.HasPrefix(fn.Name(), "spec") && recv == nil {
		return p.ctx.specApp(p, fi, fn, args)
	}
	// macro: evaluate the body as a pure expression in the current state
	return p.pureInline(ec, fi, recv, args, call)
}

// pureInline evaluates a side-effect free function body (if/return chains) as an expression.
func (p *Proc) pureInline(ec *ectx, fi *FuncInfo, recv *Val, args []Val, n ast.Node) Val {
	info := fi.Pkg.TypesInfo
	sub := &ectx{st: ec.st, spec: true, old: ec.old, info: info, pkg: fi.Pkg.Types, where: ec.where, noFacts: ec.noFacts}
	// bind by name through bound map (restored afterwards)
	saved := ec.st.bound
	nb := map[string]Val{}
	for k, v := range saved {
		nb[k] = v
	}
	if recv != nil && fi.Decl.Recv != nil && len(fi.Decl.Recv.List[0].Names) > 0 {
		nb[fi.Decl.Recv.List[0].Names[0].Name] = *recv
	}
	i := 0
	for _, fld := range fi.Decl.Type.Params.List {
		for _, nm := range fld.Names {
			if i < len(args) {
				nb[nm.Name] = args[i]
			}
			i++
		}
	}
	ec.st.bound = nb
	sub.st = ec.st
	p.pureDepth++
	if p.pureDepth > 8 {
		p.failf(n, "pure inlining too deep in %s", fi.Name)
	}
	v := p.pureBlock(sub, fi, fi.Decl.Body.List)
	p.pureDepth--
	ec.st.bound = saved
	return v
}

func (p *Proc) pureBlock(ec *ectx, fi *FuncInfo, list []ast.Stmt) Val {
	if len(list) == 0 {
		p.failf(fi.Decl, "pure function %s does not return on every path", fi.Name)
	}
	rest := list[1:]
	switch s := list[0].(type) {
	case *ast.ReturnStmt:
		if len(s.Results) != 1 {
			p.failf(s, "pure function %s must return one value", fi.Name)
		}
		v := p.evalPure(ec, s.Results[0])
		rt := fi.Obj.Type().(*types.Signature).Results().At(0).Type()
		return Val{T: p.convert(ec, v, rt), Typ: rt}
	case *ast.IfStmt:
		if s.Init != nil {
			p.failf(s, "if-init in pure function %s", fi.Name)
		}
		c := p.evalPure(ec, s.Cond)
		thenList := append(append([]ast.Stmt{}, s.Body.List...), rest...)
		var elseList []ast.Stmt
		switch e := s.Else.(type) {
		case nil:
			elseList = rest
		case *ast.BlockStmt:
			elseList = append(append([]ast.Stmt{}, e.List...), rest...)
		case *ast.IfStmt:
			elseList = append([]ast.Stmt{e}, rest...)
		}
		a := p.pureBlock(ec, fi, thenList)
		b := p.pureBlock(ec, fi, elseList)
		return Val{T: Ite(c.T, a.T, b.T), Typ: a.Typ}
	case *ast.AssignStmt:
		if s.Tok == token.DEFINE && len(s.Lhs) == 1 && len(s.Rhs) == 1 {
			id := s.Lhs[0].(*ast.Ident)
			v := p.evalPure(ec, s.Rhs[0])
			if obj, ok := ec.info.Defs[id].(*types.Var); ok && obj != nil {
				v = Val{T: p.convert(ec, v, obj.Type()), Typ: obj.Type()}
			}
			saved, had := ec.st.bound[id.Name]
			ec.st.bound[id.Name] = v
			r := p.pureBlock(ec, fi, rest)
			if had {
				ec.st.bound[id.Name] = saved
			} else {
				delete(ec.st.bound, id.Name)
			}
			return r
		}
	case *ast.SwitchStmt:
		if s.Init == nil && s.Tag != nil {
			// convert to if chain
			tag := p.evalPure(ec, s.Tag)
			var build func(i int) Val
			clauses := s.Body.List
			def := -1
			for i, c := range clauses {
				if c.(*ast.CaseClause).List == nil {
					def = i
				}
			}
			build = func(i int) Val {
				if i >= len(clauses) {
					if def >= 0 {
						return p.pureBlock(ec, fi, append(append([]ast.Stmt{}, clauses[def].(*ast.CaseClause).Body...), rest...))
					}
					return p.pureBlock(ec, fi, rest)
				}
				cc := clauses[i].(*ast.CaseClause)
				if cc.List == nil {
					return build(i + 1)
				}
				var alts []*Term
				for _, e := range cc.List {
					alts = append(alts, p.binop(ec, token.EQL, tag, p.evalPure(ec, e), e).T)
				}
				a := p.pureBlock(ec, fi, append(append([]ast.Stmt{}, cc.Body...), rest...))
				b := build(i + 1)
				return Val{T: Ite(Or(alts...), a.T, b.T), Typ: a.Typ}
			}
			return build(0)
		}
	}
	p.failf(list[0], "statement %T not allowed in pure function %s", list[0], fi.Name)
	return Val{}
}

// evalPure evaluates a Go expression of a pure function body: spec semantics, but with type info.
func (p *Proc) evalPure(ec *ectx, e ast.Expr) Val {
	if tv, ok := ec.info.Types[e]; ok && tv.Value != nil {
		return Val{T: constToTerm(p.ctx, tv.Value, tv.Type), Typ: tv.Type}
	}
	switch x := e.(type) {
	case *ast.ParenExpr:
		return p.evalPure(ec, x.X)
	case *ast.Ident:
		if v, ok := ec.st.bound[x.Name]; ok {
			return v
		}
		obj := ec.info.Uses[x]
		if obj == nil {
			p.failf(x, "unresolved %s in pure function", x.Name)
		}
		return p.evalObject(ec, obj, x)
	case *ast.BinaryExpr:
		l := p.evalPure(ec, x.X)
		r := p.evalPure(ec, x.Y)
		switch x.Op {
		case token.LAND:
			return Val{T: And(l.T, r.T), Typ: l.Typ}
		case token.LOR:
			return Val{T: Or(l.T, r.T), Typ: l.Typ}
		}
		return p.binop(ec, x.Op, l, r, x)
	case *ast.UnaryExpr:
		v := p.evalPure(ec, x.X)
		switch x.Op {
		case token.NOT:
			return Val{T: Not(v.T), Typ: v.Typ}
		case token.SUB:
			return Val{T: App("-", SInt, v.T), Typ: v.Typ}
		}
	case *ast.SelectorExpr:
		if id, ok := x.X.(*ast.Ident); ok {
			if pn, ok := ec.info.Uses[id].(*types.PkgName); ok {
				return p.evalObject(ec, pn.Imported().Scope().Lookup(x.Sel.Name), x)
			}
		}
		base := p.evalPure(ec, x.X)
		return p.selectField(ec, base, x.Sel.Name, x)
	case *ast.IndexExpr:
		return p.indexVal(ec, p.evalPure(ec, x.X), p.evalPure(ec, x.Index), x)
	case *ast.SliceExpr:
		base := p.evalPure(ec, x.X)
		lo := IntLit(0)
		if x.Low != nil {
			lo = p.evalPure(ec, x.Low).T
		}
		if base.T.Sort == SStr {
			hi := StrLen(base.T)
			if x.High != nil {
				hi = p.evalPure(ec, x.High).T
			}
			return Val{T: StrSub(base.T, lo, hi), Typ: base.Typ}
		}
		hi := SlLen(base.T)
		if x.High != nil {
			hi = p.evalPure(ec, x.High).T
		}
		return Val{T: MkSlice(SlArr(base.T), Add(SlOff(base.T), lo), Sub(hi, lo), Sub(SlCap(base.T), lo)), Typ: base.Typ}
	case *ast.StarExpr:
		return p.derefVal(ec, p.evalPure(ec, x.X), x)
	case *ast.CallExpr:
		if tv, ok := ec.info.Types[x.Fun]; ok && tv.IsType() {
			return p.conversion(ec, p.evalPure(ec, x.Args[0]), tv.Type, x)
		}
		if id, ok := x.Fun.(*ast.Ident); ok {
			if b, ok := ec.info.Uses[id].(*types.Builtin); ok && (b.Name() == "len" || b.Name() == "cap") {
				v := p.evalPure(ec, x.Args[0])
				switch v.Typ.Underlying().(type) {
				case *types.Basic:
					return Val{T: StrLen(v.T), Typ: types.Typ[types.Int]}
				case *types.Slice:
					if b.Name() == "len" {
						return Val{T: SlLen(v.T), Typ: types.Typ[types.Int]}
					}
					return Val{T: SlCap(v.T), Typ: types.Typ[types.Int]}
				case *types.Map:
					_, _, card := p.mapHeaps(ec.st, v.Typ.Underlying().(*types.Map))
					return Val{T: Sel(card, v.T), Typ: types.Typ[types.Int]}
				}
			}
		}
		fn, recvExpr := p.calleeOf(ec, x)
		if fn == nil {
			p.failf(x, "dynamic call in pure function")
		}
		var recv *Val
		if recvExpr != nil {
			r := p.evalPure(ec, recvExpr)
			recv = &r
		}
		sig := fn.Type().(*types.Signature)
		var args []Val
		for i, a := range x.Args {
			v := p.evalPure(ec, a)
			if i < sig.Params().Len() {
				pt := sig.Params().At(i).Type()
				v = Val{T: p.convert(ec, v, pt), Typ: pt}
			}
			args = append(args, v)
		}
		fi := p.ctx.funcByObj[fn]
		if fi != nil && strings.HasPrefix(fn.Name(), "spec") && recv == nil {
			return p.ctx.specApp(p, fi, fn, args)
		}
		if fi == nil || fi.Decl == nil || fi.Decl.Body == nil {
			p.failf(x, "call to %s in pure function: no body", funcKeyOf(fn))
		}
		return p.pureInline(ec, fi, recv, args, x)
	}
	p.failf(e, "expression %T not allowed in pure function", e)
	return Val{}
}

// specApp applies an axiomatised spec function, generating its definition once.
func (c *Ctx) specApp(p *Proc, fi *FuncInfo, fn *types.Func, args []Val) Val {
	name := "sf_" + sanitize(shortPkg(fn.Pkg().Path())+"_"+fn.Name())
	sig := fn.Type().(*types.Signature)
	rt := sig.Results().At(0).Type()
	rs := c.sortOf(rt)
	if _, ok := c.specFuncs[name]; !ok {
		sfi := &specFuncInfo{name: name, sort: rs}
		c.specFuncs[name] = sfi
		var sorts, binders []string
		var params []*Term
		nb := map[string]Val{}
		i := 0
		for _, fld := range fi.Decl.Type.Params.List {
			for _, nm := range fld.Names {
				pt := sig.Params().At(i).Type()
				s := c.sortOf(pt)
				sorts = append(sorts, string(s))
				vn := fmt.Sprintf("a!%s", nm.Name)
				binders = append(binders, fmt.Sprintf("(%s %s)", vn, s))
				nb[nm.Name] = Val{T: T(vn, s), Typ: pt}
				params = append(params, T(vn, s))
				i++
			}
		}
		c.gdecls = append(c.gdecls, fmt.Sprintf("(declare-fun %s (%s) %s)", name, strings.Join(sorts, " "), rs))
		// evaluate body in a scratch state
		scratch := newState()
		scratch.bound = nb
		ec := &ectx{st: scratch, spec: true, info: fi.Pkg.TypesInfo, pkg: fi.Pkg.Types, where: "spec function " + fn.Name(), noFacts: true}
		sp := &Proc{ctx: c, fi: fi, heapEntry: map[string]*Term{}, nameCount: map[string]int{}, cbParams: map[string]*types.Var{}}
		sp.frames = []*frame{{fi: fi, info: fi.Pkg.TypesInfo, pkg: fi.Pkg.Types}}
		body := sp.pureBlock(ec, fi, fi.Decl.Body.List)
		if len(scratch.pc) > 0 || len(sp.decls) > 0 {
			panic(verr{fmt.Sprintf("spec function %s reads state or needs facts", fn.Name())})
		}
		app := App(name, rs, params...)
		ax := fmt.Sprintf("(assert (forall (%s) (! (= %s %s) :pattern (%s))))", strings.Join(binders, " "), app.S, body.T.S, app.S)
		c.addAxiom(name, ax)
	}
	var ts []*Term
	for _, a := range args {
		ts = append(ts, a.T)
	}
	return Val{T: App(name, rs, ts...), Typ: rt}
}

// ---------------------------------------------------------------------------
// Globals

func (c *Ctx) initGlobal(p *Proc, o *types.Var, name string, s Sort) {
	// find the initialiser
	pk := c.pkgs[o.Pkg().Path()]
	if pk == nil {
		return
	}
	var init ast.Expr
	for _, f := range pk.Syntax {
		for _, d := range f.Decls {
			gd, ok := d.(*ast.GenDecl)
			if !ok || gd.Tok != token.VAR {
				continue
			}
			for _, sp := range gd.Specs {
				vs := sp.(*ast.ValueSpec)
				for i, nm := range vs.Names {
					if pk.TypesInfo.Defs[nm] == o && i < len(vs.Values) {
						init = vs.Values[i]
					}
				}
			}
		}
	}
	if init == nil {
		return
	}
	info := pk.TypesInfo
	switch x := init.(type) {
	case *ast.UnaryExpr:
		if cl, ok := x.X.(*ast.CompositeLit); ok && x.Op == token.AND {
			// &T{...}: non-nil, distinct from other such globals, known constant fields
			c.addAxiom(name, fmt.Sprintf("(assert (> %s 0))", name))
			c.ptrGlobals = append(c.ptrGlobals, name)
			typ := info.TypeOf(cl)
			if stt, ok := typ.Underlying().(*types.Struct); ok {
				for _, el := range cl.Elts {
					kv, ok := el.(*ast.KeyValueExpr)
					if !ok {
						continue
					}
					fname := kv.Key.(*ast.Ident).Name
					for i := 0; i < stt.NumFields(); i++ {
						f := stt.Field(i)
						if f.Name() != fname || !c.isImmutable(typ, f) {
							continue
						}
						if tv, ok := info.Types[kv.Value]; ok && tv.Value != nil {
							ifn := c.immutableArr(typ, f)
							c.addAxiom(name, fmt.Sprintf("(assert (= (select %s %s) %s))", ifn.S, name, constToTerm(c, tv.Value, f.Type()).S))
						}
					}
				}
			}
		}
	case *ast.CompositeLit:
		// struct value with constant fields
		typ := info.TypeOf(x)
		if stt, ok := typ.Underlying().(*types.Struct); ok && !opaqueStruct(typ) {
			ds := c.sortOf(typ)
			for _, el := range x.Elts {
				kv, ok := el.(*ast.KeyValueExpr)
				if !ok {
					continue
				}
				fname := kv.Key.(*ast.Ident).Name
				for i := 0; i < stt.NumFields(); i++ {
					f := stt.Field(i)
					if f.Name() != fname {
						continue
					}
					if tv, ok := info.Types[kv.Value]; ok && tv.Value != nil {
						c.addAxiom(name, fmt.Sprintf("(assert (= (%s_%s %s) %s))", ds, f.Name(), name, constToTerm(c, tv.Value, f.Type()).S))
					}
				}
			}
		}
	case *ast.Ident, *ast.SelectorExpr:
		// alias of another global
		var obj types.Object
		if id, ok := x.(*ast.Ident); ok {
			obj = info.Uses[id]
		} else {
			obj = info.Uses[x.(*ast.SelectorExpr).Sel]
		}
		if ov, ok := obj.(*types.Var); ok && ov.Pkg() != nil && ov.Parent() == ov.Pkg().Scope() {
			other := p.globalVar(&ectx{st: newState()}, ov)
			c.addAxiom(name, fmt.Sprintf("(assert (= %s %s))", name, other.T.S))
		}
	case *ast.CallExpr:
		// e.g. reserr.InternalError(errors.New("...")): a non-nil pointer
		if _, ok := o.Type().Underlying().(*types.Pointer); ok {
			if fn, ok := info.Uses[calleeIdent(x)].(*types.Func); ok && fn.Name() == "InternalError" {
				c.addAxiom(name, fmt.Sprintf("(assert (> %s 0))", name))
				c.ptrGlobals = append(c.ptrGlobals, name)
			}
		}
		if fn, ok := info.Uses[calleeIdent(x)].(*types.Func); ok && fn.Pkg() != nil && ((fn.Pkg().Path() == "errors" && fn.Name() == "New") || (fn.Pkg().Path() == "fmt" && fn.Name() == "Errorf")) && s == SIface {
			c.addAxiom(name, fmt.Sprintf("(assert (and ((_ is iface_ptr) %s) (not (= (iptr %s) 0)) (= (itag %s) %d)))", name, name, name, c.typeTag(types.NewPointer(types.Typ[types.Invalid]))))
		}
		if tv, ok := info.Types[x.Fun]; ok && tv.IsType() {
			// []byte("null") etc: a slice with known content
			if bl, ok := x.Args[0].(*ast.BasicLit); ok && bl.Kind == token.STRING && s == SSlice {
				c.byteGlobals = append(c.byteGlobals, byteGlobal{name: name, lit: info.Types[bl].Value.String()})
			}
		}
	}
}

func calleeIdent(call *ast.CallExpr) *ast.Ident {
	switch f := call.Fun.(type) {
	case *ast.Ident:
		return f
	case *ast.SelectorExpr:
		return f.Sel
	}
	return nil
}

type globalFieldFact struct {
	global string
	owner  types.Type
	field  *types.Var
	val    *Term
}

type byteGlobal struct {
	name string
	lit  string
}

// closureEntryFacts: facts a closure may assume on entry (filled in by closure support).
func (p *Proc) closureEntryFacts(st *State) {
	p.closureEntry(st)
}

// evalDefine expands a specification macro at the use site.
func (p *Proc) evalDefine(ec *ectx, d *Define, call *ast.CallExpr) Val {
	if len(call.Args) != len(d.Params) {
		p.failf(call, "%s: %s expects %d arguments", ec.where, d.Name, len(d.Params))
	}
	// types resolve in the defining package
	dec := &ectx{st: ec.st, spec: true, old: ec.old, where: d.Where, noFacts: ec.noFacts}
	if pk := p.ctx.pkgs[d.PkgPath]; pk != nil {
		dec.pkg = pk.Types
		if sf := p.ctx.specFiles[d.PkgPath]; sf != nil {
			dec.scope = pk.TypesInfo.Scopes[sf]
		}
	}
	nb := map[string]Val{}
	for i, a := range call.Args {
		v := p.eval(ec, a)
		t := p.resolveType(dec, d.PTypes[i])
		if t == nil {
			p.failf(call, "%s: unknown parameter type in define %s", d.Where, d.Name)
		}
		nb[d.Params[i]] = Val{T: p.convert(ec, v, t), Typ: t}
	}
	saved := ec.st.bound
	// quantifier-bound variables of the caller stay visible only through arguments
	ec.st.bound = nb
	p.pureDepth++
	if p.pureDepth > 12 {
		p.failf(call, "define expansion too deep (%s)", d.Name)
	}
	v := p.eval(dec, d.Body)
	p.pureDepth--
	ec.st.bound = saved
	rt := p.resolveType(dec, d.Result)
	if rt != nil {
		v = Val{T: p.convert(dec, v, rt), Typ: rt}
	}
	return v
}
