package main

import (
	"fmt"
	"go/ast"
	"go/token"
	"go/types"
	"sort"
	"strings"
)

// modset is what a piece of code may modify (syntactic over-approximation).
type modset struct {
	vars map[*types.Var]bool
	heap map[string]Sort
	all  bool
	pfx  []string
	cbs  map[*types.Var]bool // callback parameters invoked or handed over in the region
}

func newModset() *modset {
	return &modset{vars: map[*types.Var]bool{}, heap: map[string]Sort{}, cbs: map[*types.Var]bool{}}
}

func (m *modset) union(o *modset) {
	for v := range o.vars {
		m.vars[v] = true
	}
	for v := range o.cbs {
		m.cbs[v] = true
	}
	for k, s := range o.heap {
		m.heap[k] = s
	}
	m.all = m.all || o.all
	m.pfx = append(m.pfx, o.pfx...)
}

var modCache = map[ast.Node]*modset{}

// modifiedBy computes the variables and heap arrays a loop may modify.
func (p *Proc) modifiedBy(n ast.Node) *modset {
	fr := p.cur()
	m := p.modScan(fr.fi, fr.info, n, 0)
	// every modified variable that is live at the loop head is havocked (havocMod skips the ones
	// not yet declared); in particular the variables declared by a for statement's init clause,
	// which lie inside the statement's source range
	out := newModset()
	out.all = m.all
	out.pfx = append(out.pfx, m.pfx...)
	for v := range m.cbs {
		out.cbs[v] = true
	}
	for k, s := range m.heap {
		out.heap[k] = s
	}
	body := n
	switch x := n.(type) {
	case *ast.ForStmt:
		body = x.Body
	case *ast.RangeStmt:
		body = x.Body
	}
	for v := range m.vars {
		if v.Pos() < body.Pos() || v.Pos() >= body.End() {
			out.vars[v] = true
		}
	}
	return out
}

func (p *Proc) modScan(fi *FuncInfo, info *types.Info, n ast.Node, depth int) *modset {
	m := newModset()
	addLhs := func(e ast.Expr) {
		switch l := ast.Unparen(e).(type) {
		case *ast.Ident:
			if v, ok := info.Uses[l].(*types.Var); ok {
				m.vars[v] = true
			}
		case *ast.SelectorExpr:
			if sel := info.Selections[l]; sel != nil {
				if f, ok := sel.Obj().(*types.Var); ok {
					// owner type of the last field
					recv := sel.Recv()
					idx := sel.Index()
					t := recv
					for _, i := range idx[:len(idx)-1] {
						if e, ok := deref(t); ok {
							t = e
						}
						t = t.Underlying().(*types.Struct).Field(i).Type()
					}
					if e, ok := deref(t); ok {
						m.heap[p.fieldHeapKey(e, f)] = ArrSort(SInt, p.ctx.sortOf(f.Type()))
					} else if id := rootIdent(l); id != nil {
						if v, ok := info.Uses[id].(*types.Var); ok {
							m.vars[v] = true
						}
					}
				}
			}
		case *ast.IndexExpr:
			t := info.TypeOf(l.X)
			switch bt := t.Underlying().(type) {
			case *types.Map:
				id, ks, vs := p.mapKeys(bt)
				m.heap["MD:"+id] = ArrSort(SInt, ArrSort(ks, SBool))
				m.heap["MV:"+id] = ArrSort(SInt, ArrSort(ks, vs))
				m.heap["MC:"+id] = ArrSort(SInt, SInt)
			case *types.Slice:
				es := p.ctx.sortOf(bt.Elem())
				m.heap[p.sliceHeapKey(bt.Elem())] = ArrSort(SInt, ArrSort(SInt, es))
			case *types.Array:
				if id := rootIdent(l); id != nil {
					if v, ok := info.Uses[id].(*types.Var); ok {
						m.vars[v] = true
					}
				}
			}
		case *ast.StarExpr:
			t := info.TypeOf(l.X)
			if e, ok := deref(t); ok {
				if stt, ok := e.Underlying().(*types.Struct); ok {
					for i := 0; i < stt.NumFields(); i++ {
						f := stt.Field(i)
						m.heap[p.fieldHeapKey(e, f)] = ArrSort(SInt, p.ctx.sortOf(f.Type()))
					}
				} else {
					m.heap[p.ptrHeapKey(e)] = ArrSort(SInt, p.ctx.sortOf(e))
				}
			}
		}
	}
	// closures that cannot run inside the region: those spawned by a go statement and those handed
	// to a parameter the callee's contract declares deferred
	skip := map[*ast.FuncLit]bool{}
	ast.Inspect(n, func(nd ast.Node) bool {
		switch x := nd.(type) {
		case *ast.GoStmt:
			if fl, ok := ast.Unparen(x.Call.Fun).(*ast.FuncLit); ok {
				skip[fl] = true
			}
			for _, a := range x.Call.Args {
				if fl, ok := ast.Unparen(a).(*ast.FuncLit); ok {
					skip[fl] = true
				}
			}
		case *ast.CallExpr:
			ct, sig := p.staticContract(info, x)
			if ct == nil || sig == nil {
				return true
			}
			for i, a := range x.Args {
				fl, ok := ast.Unparen(a).(*ast.FuncLit)
				if !ok || i >= sig.Params().Len() {
					continue
				}
				if defersParam(ct, sig.Params().At(i).Name()) {
					skip[fl] = true
				}
			}
		}
		return true
	})
	ast.Inspect(n, func(nd ast.Node) bool {
		if id, ok := nd.(*ast.Ident); ok {
			if v, ok := info.Uses[id].(*types.Var); ok && p.cbParams[v.Name()] == v {
				m.cbs[v] = true
			}
		}
		return true
	})
	ast.Inspect(n, func(nd ast.Node) bool {
		switch x := nd.(type) {
		case *ast.FuncLit:
			// any other closure created in the region may run inside it (synchronous callbacks):
			// what it modifies counts as modified by the region
			return !skip[x]
		case *ast.AssignStmt:
			for _, l := range x.Lhs {
				addLhs(l)
			}
		case *ast.IncDecStmt:
			addLhs(x.X)
		case *ast.SendStmt:
			m.heap["G:$sendcount"] = SInt
			m.heap["G:$lastsent"] = SIface
		case *ast.GoStmt:
			m.heap["G:$spawncount"] = SInt
			m.heap["G:$spawned"] = SInt
		case *ast.RangeStmt:
			if x.Tok == token.ASSIGN {
				if x.Key != nil {
					addLhs(x.Key)
				}
				if x.Value != nil {
					addLhs(x.Value)
				}
			}
		case *ast.CallExpr:
			if tv, ok := info.Types[x.Fun]; ok && tv.IsType() {
				return true
			}
			if id, ok := ast.Unparen(x.Fun).(*ast.Ident); ok {
				if b, ok := info.Uses[id].(*types.Builtin); ok {
					switch b.Name() {
					case "append", "copy":
						t := info.TypeOf(x.Args[0])
						if sl, ok := t.Underlying().(*types.Slice); ok {
							es := p.ctx.sortOf(sl.Elem())
							m.heap[p.sliceHeapKey(sl.Elem())] = ArrSort(SInt, ArrSort(SInt, es))
						}
						m.heap["AL:"] = ArrSort(SInt, SBool)
					case "delete":
						if mt, ok := info.TypeOf(x.Args[0]).Underlying().(*types.Map); ok {
							id, ks, _ := p.mapKeys(mt)
							m.heap["MD:"+id] = ArrSort(SInt, ArrSort(ks, SBool))
							m.heap["MC:"+id] = ArrSort(SInt, SInt)
						}
					case "make", "new":
						m.heap["AL:"] = ArrSort(SInt, SBool)
						if len(x.Args) > 0 {
							switch ut := info.TypeOf(x.Args[0]).Underlying().(type) {
							case *types.Map:
								id, ks, _ := p.mapKeys(ut)
								m.heap["MD:"+id] = ArrSort(SInt, ArrSort(ks, SBool))
								m.heap["MC:"+id] = ArrSort(SInt, SInt)
							case *types.Slice:
								es := p.ctx.sortOf(ut.Elem())
								m.heap[p.sliceHeapKey(ut.Elem())] = ArrSort(SInt, ArrSort(SInt, es))
							}
						}
					}
					return true
				}
			}
			// static callee?
			var fn *types.Func
			switch f := ast.Unparen(x.Fun).(type) {
			case *ast.Ident:
				fn, _ = info.Uses[f].(*types.Func)
			case *ast.SelectorExpr:
				if sel := info.Selections[f]; sel != nil && sel.Kind() == types.MethodVal {
					fn, _ = sel.Obj().(*types.Func)
				} else if sel == nil {
					fn, _ = info.Uses[f.Sel].(*types.Func)
				}
			}
			// accounting touched by any call: callbacks invoked, closures handed over
			m.heap["G:$invoked"] = SInt
			m.heap["G:$handed"] = SInt
			if fn == nil {
				// function value: callbacks under contract modify nothing but ghost state
				m.all = m.all || !p.callbackIsFramed(info, x)
				return true
			}
			if p.droppedFn(fn) {
				switch funcKeyOf(fn) {
				case "sync.(*Mutex).Lock", "sync.(*RWMutex).Lock", "sync.(*Mutex).Unlock", "sync.(*RWMutex).Unlock":
					m.heap["G:$held"] = ArrSort(SInt, SInt)
				}
				return true
			}
			m.heap["G:$calls:"+fn.Name()] = SInt
			if sig, ok := fn.Type().(*types.Signature); ok {
				if nt := namedOf(recvTypeOf(sig)); nt != nil {
					m.heap["G:$calls:"+nt.Obj().Name()+"."+fn.Name()] = SInt
				}
			}
			key := funcKeyOf(fn)
			if ct, ok := p.ctx.contracts[key]; ok && !ct.Inline {
				p.contractMod(m, ct)
				return true
			}
			if lib, ok := p.ctx.libs[key]; ok {
				p.contractMod(m, lib)
				return true
			}
			if cfi := p.ctx.funcs[key]; cfi != nil && cfi.Decl != nil && cfi.Decl.Body != nil && depth < 5 {
				sub := p.modScan(cfi, cfi.Pkg.TypesInfo, cfi.Decl.Body, depth+1)
				for k, s := range sub.heap {
					m.heap[k] = s
				}
				m.all = m.all || sub.all
				return true
			}
			// interface methods with devirtualisation
			if sig := fn.Type().(*types.Signature); sig.Recv() != nil && isIface(sig.Recv().Type()) {
				if nt := namedOf(sig.Recv().Type()); nt != nil {
					if impl, ok := p.ctx.dirs.Devirt[nt.Obj().Pkg().Path()+"."+nt.Obj().Name()]; ok {
						i := strings.LastIndex(impl, ".")
						ikey := impl[:i] + ".(*" + impl[i+1:] + ")." + fn.Name()
						if ct, ok := p.ctx.contracts[ikey]; ok && !ct.Inline {
							p.contractMod(m, ct)
							return true
						}
						if cfi := p.ctx.funcs[ikey]; cfi != nil && cfi.Decl != nil && depth < 5 {
							sub := p.modScan(cfi, cfi.Pkg.TypesInfo, cfi.Decl.Body, depth+1)
							for k, s := range sub.heap {
								m.heap[k] = s
							}
							m.all = m.all || sub.all
							return true
						}
					}
				}
			}
			m.all = true
		}
		return true
	})
	return m
}

// staticContract resolves the contract (own, lib, or through devirtualisation) of a call's callee.
func (p *Proc) staticContract(info *types.Info, x *ast.CallExpr) (*Contract, *types.Signature) {
	var fn *types.Func
	switch f := ast.Unparen(x.Fun).(type) {
	case *ast.Ident:
		fn, _ = info.Uses[f].(*types.Func)
	case *ast.SelectorExpr:
		if sel := info.Selections[f]; sel != nil && sel.Kind() == types.MethodVal {
			fn, _ = sel.Obj().(*types.Func)
		} else if sel == nil {
			fn, _ = info.Uses[f.Sel].(*types.Func)
		}
	}
	if fn == nil {
		return nil, nil
	}
	sig := fn.Type().(*types.Signature)
	key := funcKeyOf(fn)
	if ct, ok := p.ctx.contracts[key]; ok {
		return ct, sig
	}
	if lib, ok := p.ctx.libs[key]; ok {
		return lib, sig
	}
	if sig.Recv() != nil && isIface(sig.Recv().Type()) {
		if nt := namedOf(sig.Recv().Type()); nt != nil && nt.Obj().Pkg() != nil {
			if impl, ok := p.ctx.dirs.Devirt[nt.Obj().Pkg().Path()+"."+nt.Obj().Name()]; ok {
				i := strings.LastIndex(impl, ".")
				if ct, ok := p.ctx.contracts[impl[:i]+".(*"+impl[i+1:]+")."+fn.Name()]; ok {
					return ct, sig
				}
			}
		}
	}
	return nil, sig
}

func (p *Proc) callbackIsFramed(info *types.Info, call *ast.CallExpr) bool {
	id, ok := ast.Unparen(call.Fun).(*ast.Ident)
	if !ok {
		return false
	}
	_, isCb := p.cbParams[id.Name]
	return isCb
}

func rootIdent(e ast.Expr) *ast.Ident {
	for {
		switch x := e.(type) {
		case *ast.Ident:
			return x
		case *ast.SelectorExpr:
			e = x.X
		case *ast.IndexExpr:
			e = x.X
		case *ast.ParenExpr:
			e = x.X
		case *ast.StarExpr:
			e = x.X
		default:
			return nil
		}
	}
}

// contractMod adds the (coarsened) assigns set of a contract: whole heap arrays.
func (p *Proc) contractMod(m *modset, ct *Contract) {
	cls := ct.ByKind("assigns")
	if len(cls) == 0 {
		if ct.Trusted {
			return // trusted/lib contracts without assigns modify nothing modelled
		}
		m.all = true
		return
	}
	for _, cl := range cls {
		if cl.Arg == "*" {
			m.all = true
			return
		}
		for _, e := range cl.Exprs {
			for _, k := range p.locKeysStatic(ct, e) {
				if k.key == "*" {
					m.all = true
					return
				}
				if strings.HasPrefix(k.key, "$pfx:") {
					pfx := strings.TrimPrefix(k.key, "$pfx:")
					for hk, t := range p.heapEntry {
						if keyMatches(hk, pfx) {
							m.heap[hk] = t.Sort
						}
					}
					m.pfx = append(m.pfx, pfx)
					continue
				}
				m.heap[k.key] = k.sort
			}
		}
	}
}

type keySort struct {
	key  string
	sort Sort
}

// locKeysStatic resolves the heap arrays an assigns entry touches, using types only.
func (p *Proc) locKeysStatic(ct *Contract, e ast.Expr) []keySort {
	if call, ok := e.(*ast.CallExpr); ok {
		if id, ok := call.Fun.(*ast.Ident); ok && id.Name == "sbuf" {
			return []keySort{{"G:sbuf", ArrSort(SInt, SStr)}}
		}
	}
	fi := p.ctx.funcs[ct.PkgPath+"."+ct.Name]
	scratch := newState()
	extra := map[string]Val{}
	var fn *types.Func
	if fi != nil && fi.Obj != nil {
		fn = fi.Obj
		sig := fn.Type().(*types.Signature)
		var recv *Val
		if sig.Recv() != nil {
			r := Val{T: T("scratch_recv", p.ctx.sortOf(sig.Recv().Type())), Typ: sig.Recv().Type()}
			recv = &r
		}
		var args []Val
		for i := 0; i < sig.Params().Len(); i++ {
			t := sig.Params().At(i).Type()
			args = append(args, Val{T: T(fmt.Sprintf("scratch_arg%d", i), p.ctx.sortOf(t)), Typ: t})
		}
		extra = p.bindParams(ct, fi, sig, recv, args)
	} else if ct.Kind == "lib" || fi == nil {
		// interface method or lib: parameters typed from the method signature if resolvable
		if m := p.ctx.ifaceMethod(ct.PkgPath + "." + ct.Name); m != nil {
			sig := m.Type().(*types.Signature)
			r := Val{T: T("scratch_recv", SIface), Typ: sig.Recv().Type()}
			var args []Val
			for i := 0; i < sig.Params().Len(); i++ {
				t := sig.Params().At(i).Type()
				args = append(args, Val{T: T(fmt.Sprintf("scratch_arg%d", i), p.ctx.sortOf(t)), Typ: t})
			}
			extra = p.bindParams(ct, nil, sig, &r, args)
			fn = m
		}
	}
	sp := &Proc{ctx: p.ctx, fi: p.fi, heapEntry: map[string]*Term{}, nameCount: map[string]int{}, cbParams: map[string]*types.Var{}, frames: p.frames}
	ec := sp.contractEc(scratch, ct, fi, fn, extra)
	var out []keySort
	func() {
		defer func() {
			if r := recover(); r != nil {
				if _, ok := r.(verr); ok {
					out = []keySort{{"*", ""}}
					return
				}
				panic(r)
			}
		}()
		for _, l := range sp.evalLoc(ec, e) {
			out = append(out, keySort{l.key, l.sort})
		}
	}()
	return out
}

func (c *Ctx) ifaceMethod(key string) *types.Func {
	i := strings.LastIndex(key, ".")
	if i < 0 {
		return nil
	}
	j := strings.LastIndex(key[:i], ".")
	if j < 0 {
		return nil
	}
	tp := c.allPkgs[key[:j]]
	if tp == nil {
		return nil
	}
	obj := tp.Scope().Lookup(key[j+1 : i])
	if obj == nil {
		return nil
	}
	it, ok := obj.Type().Underlying().(*types.Interface)
	if !ok {
		return nil
	}
	for k := 0; k < it.NumMethods(); k++ {
		if it.Method(k).Name() == key[i+1:] {
			return it.Method(k)
		}
	}
	return nil
}

// havocMod havocs the loop-modified variables and heap arrays.
func (p *Proc) havocMod(st *State, m *modset, n ast.Node) {
	var vs []*types.Var
	for v := range m.vars {
		vs = append(vs, v)
	}
	sort.Slice(vs, func(i, j int) bool { return vs[i].Pos() < vs[j].Pos() || vs[i].Pos() == vs[j].Pos() && vs[i].Name() < vs[j].Name() })
	for _, v := range vs {
		cur, ok := st.vars[v]
		if !ok {
			continue
		}
		if p.boxed[v] {
			p.failf(n, "loop modifies address-taken variable %s", v.Name())
		}
		nv := Val{T: p.freshConst("h_"+v.Name(), cur.Sort), Typ: v.Type()}
		if s, ok := p.visitedSort[v]; ok {
			nv = Val{T: p.freshConst("h_"+v.Name(), s), Typ: v.Type()}
			st.vars[v] = nv.T
			continue
		}
		st.vars[v] = nv.T
		p.wfAssume(st, nv)
	}
	// resolution counts of callback parameters the region invokes or hands on: forgotten, but
	// they only grow (an invariant over resolved(cb) can pin them down)
	var cbs []*types.Var
	for v := range m.cbs {
		cbs = append(cbs, v)
	}
	sort.Slice(cbs, func(i, j int) bool { return cbs[i].Pos() < cbs[j].Pos() })
	for _, v := range cbs {
		old := st.resolved[v]
		if old == nil {
			old = IntLit(0)
		}
		nv := p.freshConst("h_resolved_"+v.Name(), SInt)
		st.assume(Ge(nv, old))
		st.resolved[v] = nv
	}
	var ks []string
	for k := range m.heap {
		ks = append(ks, k)
	}
	sort.Strings(ks)
	// per-procedure accounting (call, send, spawn and callback counters) the region advances:
	// forgotten, but counters only grow
	for _, k := range ks {
		if !strings.HasPrefix(k, "G:$") {
			continue
		}
		old := p.heapGet(st, k, m.heap[k])
		nh := p.havocHeap(st, k, m.heap[k])
		if m.heap[k] == SInt && k != "G:$spawned" {
			st.assume(Ge(nh, old))
		}
	}
	if m.all {
		p.havocAll(st)
		return
	}
	for _, pfx := range m.pfx {
		p.havocPrefix(st, pfx)
	}
	for _, k := range ks {
		if p.ctx.immutableKey(k) || strings.HasPrefix(k, "G:$") {
			continue
		}
		old := p.heapGet(st, k, m.heap[k])
		nh := p.havocHeap(st, k, m.heap[k])
		p.heapMonotone(st, k, old, nh)
	}
}

// havocPrefix forgets every heap array whose key starts with the prefix, including arrays
// first touched later (a marker makes heapGet hand out fresh symbols for them).
func (p *Proc) havocPrefix(st *State, prefix string) {
	keys := map[string]Sort{}
	for k, t := range p.heapEntry {
		keys[k] = t.Sort
	}
	for k, t := range st.heap {
		keys[k] = t.Sort
	}
	var ks []string
	for k := range keys {
		if keyMatches(k, prefix) {
			ks = append(ks, k)
		}
	}
	sort.Strings(ks)
	for _, k := range ks {
		p.havocHeap(st, k, keys[k])
	}
	st.hv = &havocTree{leaf: true, patterns: []string{prefix}, prev: st.hv, cache: map[string]*Term{}}
}

// heapMonotone keeps facts that survive any modification (allocation only grows, nil map stays empty).
func (p *Proc) heapMonotone(st *State, key string, old, nh *Term) {
	switch {
	case key == "AL:":
		st.assume(T(fmt.Sprintf("(forall ((r!m Int)) (! (=> (select %s r!m) (select %s r!m)) :pattern ((select %s r!m))))", old.S, nh.S, nh.S), SBool))
	case strings.HasPrefix(key, "MD:"):
		_, inner := elemSortOfArr(nh.Sort)
		ks, _ := elemSortOfArr(inner)
		st.assume(T(fmt.Sprintf("(forall ((k!m %s)) (not (select (select %s 0) k!m)))", ks, nh.S), SBool))
	case strings.HasPrefix(key, "MC:"):
		st.assume(Eq(Sel(nh, IntLit(0)), IntLit(0)))
	}
}

func (c *Ctx) immutableKey(key string) bool {
	return strings.HasPrefix(key, "IF:")
}

// havocAll forgets the whole mutable heap.
func (p *Proc) havocAll(st *State) {
	keys := map[string]Sort{}
	for k, t := range p.heapEntry {
		keys[k] = t.Sort
	}
	for k, t := range st.heap {
		keys[k] = t.Sort
	}
	var ks []string
	for k := range keys {
		ks = append(ks, k)
	}
	sort.Strings(ks)
	for _, k := range ks {
		if strings.HasPrefix(k, "G:") && !p.ctx.ghostHavocable(k) {
			continue
		}

		old := p.heapGet(st, k, keys[k])
		nh := p.havocHeap(st, k, keys[k])
		p.heapMonotone(st, k, old, nh)
	}
	// heap arrays first touched after this point are fresh, too
	st.hv = &havocTree{leaf: true, all: true, prev: st.hv, cache: map[string]*Term{}}
}

func (c *Ctx) ghostHavocable(k string) bool { return !strings.HasPrefix(k, "G:$") }

// ---------------------------------------------------------------------------
// assigns clauses

type loc struct {
	key   string
	sort  Sort
	ref   *Term // nil: the whole array
	inner bool  // contents of a map/slice object (ref is the map/array id)
}

// evalLoc evaluates one assigns entry to heap locations.
func (p *Proc) evalLoc(ec *ectx, e ast.Expr) []loc {
	switch x := ast.Unparen(e).(type) {
	case *ast.Ident:
		if gt, ok := p.ctx.dirs.GhostVars[x.Name]; ok {
			v := p.ghostVar(ec, x.Name, gt)
			return []loc{{key: "G:" + x.Name, sort: v.T.Sort}}
		}
		p.failf(e, "%s: assigns: %s is not a heap location", ec.where, x.Name)
	case *ast.SelectorExpr:
		// Type.field: whole field array
		if t := p.resolveType(ec, x.X); t != nil {
			if ec.st.bound == nil || ec.st.bound[exprText(x.X)].T == nil {
				if _, isVal := ec.extra[exprText(x.X)]; !isVal {
					stt, ok := t.Underlying().(*types.Struct)
					if !ok {
						p.failf(e, "%s: assigns: %s is not a struct type", ec.where, exprText(x.X))
					}
					for i := 0; i < stt.NumFields(); i++ {
						if f := stt.Field(i); f.Name() == x.Sel.Name {
							return []loc{{key: p.fieldHeapKey(t, f), sort: ArrSort(SInt, p.ctx.sortOf(f.Type()))}}
						}
					}
					p.failf(e, "%s: assigns: no field %s", ec.where, x.Sel.Name)
				}
			}
		}
		base := p.eval(ec, x.X)
		obj, index, _ := types.LookupFieldOrMethod(base.Typ, true, ec.pkg, x.Sel.Name)
		if obj == nil {
			if nt := namedOf(base.Typ); nt != nil && nt.Obj().Pkg() != nil {
				obj, index, _ = types.LookupFieldOrMethod(base.Typ, true, nt.Obj().Pkg(), x.Sel.Name)
			}
		}
		f, ok := obj.(*types.Var)
		if !ok {
			p.failf(e, "%s: assigns: no field %s", ec.where, x.Sel.Name)
		}
		cur := base
		for _, i := range index[:len(index)-1] {
			cur = p.fieldStep(ec, cur, i, e)
		}
		elem, isPtr := deref(cur.Typ)
		if !isPtr {
			p.failf(e, "%s: assigns: field of a struct value", ec.where)
		}
		return []loc{{key: p.fieldHeapKey(elem, f), sort: ArrSort(SInt, p.ctx.sortOf(f.Type())), ref: cur.T}}
	case *ast.StarExpr:
		ptr := p.eval(ec, x.X)
		elem, _ := deref(ptr.Typ)
		if stt, ok := elem.Underlying().(*types.Struct); ok {
			var out []loc
			for i := 0; i < stt.NumFields(); i++ {
				f := stt.Field(i)
				if isSyncType(f.Type()) || p.ctx.isImmutable(elem, f) {
					continue
				}
				out = append(out, loc{key: p.fieldHeapKey(elem, f), sort: ArrSort(SInt, p.ctx.sortOf(f.Type())), ref: ptr.T})
			}
			return out
		}
		return []loc{{key: p.ptrHeapKey(elem), sort: ArrSort(SInt, p.ctx.sortOf(elem)), ref: ptr.T}}
	case *ast.CallExpr:
		if id, ok := x.Fun.(*ast.Ident); ok && id.Name == "elems" {
			v := p.eval(ec, x.Args[0])
			switch ut := v.Typ.Underlying().(type) {
			case *types.Map:
				id, ks, vs := p.mapKeys(ut)
				return []loc{
					{key: "MD:" + id, sort: ArrSort(SInt, ArrSort(ks, SBool)), ref: v.T, inner: true},
					{key: "MV:" + id, sort: ArrSort(SInt, ArrSort(ks, vs)), ref: v.T, inner: true},
					{key: "MC:" + id, sort: ArrSort(SInt, SInt), ref: v.T, inner: true},
				}
			case *types.Slice:
				es := p.ctx.sortOf(ut.Elem())
				return []loc{{key: p.sliceHeapKey(ut.Elem()), sort: ArrSort(SInt, ArrSort(SInt, es)), ref: SlArr(v.T), inner: true}}
			}
			p.failf(e, "%s: assigns: elems() of %s", ec.where, v.Typ)
		}
		if id, ok := x.Fun.(*ast.Ident); ok && id.Name == "alloc" {
			return []loc{{key: "AL:", sort: ArrSort(SInt, SBool)}}
		}
		if id, ok := x.Fun.(*ast.Ident); ok && id.Name == "elemsof" {
			// the contents of every slice or map of the given type
			t := p.resolveType(ec, x.Args[0])
			if t == nil {
				p.failf(e, "%s: elemsof(): unknown type", ec.where)
			}
			switch ut := t.Underlying().(type) {
			case *types.Map:
				id, _, _ := p.mapKeys(ut)
				return []loc{{key: "$pfx:MD:" + id, sort: SBool}, {key: "$pfx:MV:" + id, sort: SBool}, {key: "$pfx:MC:" + id, sort: SBool}}
			case *types.Slice:
				return []loc{{key: "$pfx:" + p.sliceHeapKey(ut.Elem()), sort: SBool}}
			}
			p.failf(e, "%s: elemsof() needs a slice or map type", ec.where)
		}
		if id, ok := x.Fun.(*ast.Ident); ok && id.Name == "sbuf" && len(x.Args) == 1 {
			v := p.eval(ec, x.Args[0])
			return []loc{{key: "G:sbuf", ref: v.T, sort: ArrSort(SInt, SStr)}}
		}
		if id, ok := x.Fun.(*ast.Ident); ok && id.Name == "cachecontainers" {
			// the containers owned by the cache: work queues, the index, subscriber sets, query maps, link lists
			return []loc{{key: "$pfx:SH:func()", sort: SBool}, {key: "$pfx:~rescache.EventSubscription", sort: SBool},
				{key: "$pfx:~rescache.ResourceSubscription", sort: SBool}, {key: "$pfx:~rescache.Subscriber", sort: SBool},
				{key: "$pfx:~rescache.Conn", sort: SBool}, {key: "$pfx:SH:Str", sort: SBool}}
		}
		if id, ok := x.Fun.(*ast.Ident); ok && id.Name == "funcqueues" {
			// the contents of every []func() (work queues)
			return []loc{{key: "$pfx:SH:func()", sort: SBool}}
		}
		if id, ok := x.Fun.(*ast.Ident); ok && id.Name == "containers" {
			// the contents of every slice and map
			return []loc{{key: "$pfx:SH:", sort: SBool}, {key: "$pfx:MD:", sort: SBool}, {key: "$pfx:MV:", sort: SBool}, {key: "$pfx:MC:", sort: SBool}}
		}
		if id, ok := x.Fun.(*ast.Ident); ok && id.Name == "pkgstate" {
			// every field of every struct type declared in the named package
			pn := x.Args[0].(*ast.Ident).Name
			return []loc{{key: "$pfx:F:S_" + pn + "_", sort: SBool}}
		}
	}
	p.failf(e, "%s: unsupported assigns entry", ec.where)
	return nil
}

// applyAssigns havocs what a callee may modify.
func (p *Proc) applyAssigns(st, pre *State, ct *Contract, fi *FuncInfo, fn *types.Func, extra map[string]Val, n ast.Node) {
	cls := ct.ByKind("assigns")
	if len(cls) == 0 {
		if ct.Trusted {
			return
		}
		p.havocAll(st)
		return
	}
	type upd struct {
		sort Sort
		refs []*Term
		all  bool
	}
	upds := map[string]*upd{}
	var order []string
	for _, cl := range cls {
		if cl.Arg == "*" {
			p.havocAll(st)
			return
		}
		for _, e := range cl.Exprs {
			ec := p.contractEc(pre, ct, fi, fn, extra)
			ec.where = cl.Where
			for _, l := range p.evalLoc(ec, e) {
				u := upds[l.key]
				if u == nil {
					u = &upd{sort: l.sort}
					upds[l.key] = u
					order = append(order, l.key)
				}
				if l.ref == nil {
					u.all = true
				} else {
					u.refs = append(u.refs, l.ref)
				}
			}
		}
	}
	// facts learnt while evaluating locations in `pre` (wf assumptions) are not needed in st
	for _, k := range order {
		u := upds[k]
		if strings.HasPrefix(k, "$pfx:") {
			p.havocPrefix(st, strings.TrimPrefix(k, "$pfx:"))
			continue
		}
		old := p.heapGet(st, k, u.sort)
		if u.all {
			nh := p.havocHeap(st, k, u.sort)
			p.heapMonotone(st, k, old, nh)
			continue
		}
		cur := old
		_, es := elemSortOfArr(u.sort)
		for _, r := range u.refs {
			cur = Store(cur, r, p.freshConst("hv", es))
		}
		p.heapSet(st, k, cur)
	}
	// callee may allocate
	if _, ok := upds["AL:"]; !ok {
		old := p.heapGet(st, "AL:", ArrSort(SInt, SBool))
		nh := p.havocHeap(st, "AL:", ArrSort(SInt, SBool))
		p.heapMonotone(st, "AL:", old, nh)
	}
}

// checkFrame proves the procedure's own assigns clause at an exit.
func (p *Proc) checkFrame(st *State, n ast.Node) {
	if p.contract == nil {
		return
	}
	cls := p.contract.ByKind("assigns")
	if len(cls) == 0 {
		return
	}
	if len(p.contract.ByKind("noframe")) > 0 {
		p.ctx.notes["frame (assigns clause) of "+p.fi.Name+" is assumed, not proved"] = true
		return
	}
	allowed := map[string][]*Term{}
	whole := map[string]bool{}
	var tags []string
	for _, cl := range cls {
		if cl.Arg == "*" {
			return
		}
		tags = append(tags, cl.Tags...)
		for _, e := range cl.Exprs {
			ec := p.exitEc(p.entry.clone())
			ec.where = cl.Where
			for _, l := range p.evalLoc(ec, e) {
				if l.ref == nil {
					whole[l.key] = true
				} else {
					allowed[l.key] = append(allowed[l.key], l.ref)
				}
			}
		}
	}
	if st.hv.hasAll() {
		p.oblige(st, "frame", "frame[havoc]", tags, TFalse, p.where(n))
		return
	}
	for _, fg := range p.frameGoals(st, allowed, whole, nil) {
		p.oblige(st, "frame", fmt.Sprintf("frame[%s]", fg.key), tags, fg.goal, p.where(n))
	}
}

type frameGoal struct {
	key  string
	goal *Term
}

// frameSets evaluates the assigns clauses of the procedure's contract in the entry state.
// ok is false when there is no frame to prove (no clause, noframe, or assigns *).
func (p *Proc) frameSets() (allowed map[string][]*Term, whole map[string]bool, tags []string, ok bool) {
	if p.contract == nil {
		return
	}
	cls := p.contract.ByKind("assigns")
	if len(cls) == 0 || len(p.contract.ByKind("noframe")) > 0 {
		return
	}
	allowed = map[string][]*Term{}
	whole = map[string]bool{}
	for _, cl := range cls {
		if cl.Arg == "*" {
			return nil, nil, nil, false
		}
		tags = append(tags, cl.Tags...)
		for _, e := range cl.Exprs {
			ec := p.exitEc(p.entry.clone())
			ec.where = cl.Where
			for _, l := range p.evalLoc(ec, e) {
				if l.ref == nil {
					whole[l.key] = true
				} else {
					allowed[l.key] = append(allowed[l.key], l.ref)
				}
			}
		}
	}
	return allowed, whole, tags, true
}

// frameGoals lists, for every heap array that differs from its entry value and is not wholly
// assignable, the formula "unchanged outside the assignable locations". With only != nil the
// list is restricted to those keys.
func (p *Proc) frameGoals(st *State, allowed map[string][]*Term, whole map[string]bool, only map[string]bool) []frameGoal {
	var out []frameGoal
	al0 := p.heapGet(p.entry, "AL:", ArrSort(SInt, SBool))
	for _, k := range sortedKeys(st.heap) {
		if only != nil && !only[k] {
			continue
		}
		if k == "AL:" || p.wholePrefix(whole, k) || whole[k] || strings.HasPrefix(k, "IF:") || strings.HasPrefix(k, "G:$") || strings.Contains(k, "_fnlocal_") {
			// (fields of function-local types are invisible to every caller)
			continue
		}
		now := st.heap[k]
		was, ok := p.heapEntry[k]
		if !ok || now == was || now.S == was.S {
			continue
		}
		if strings.HasPrefix(k, "G:") && k != "G:sbuf" {
			out = append(out, frameGoal{k, Eq(now, was)})
			continue
		}
		var conds []string
		conds = append(conds, fmt.Sprintf("(select %s o!f)", al0.S))
		for _, r := range allowed[k] {
			conds = append(conds, fmt.Sprintf("(not (= o!f %s))", r.S))
		}
		g := T(fmt.Sprintf("(forall ((o!f Int)) (=> (and %s) (= (select %s o!f) (select %s o!f))))", strings.Join(conds, " "), now.S, was.S), SBool)
		out = append(out, frameGoal{k, g})
	}
	return out
}

// ---------------------------------------------------------------------------
// Function values, closures, continuations (extended in closure.go)

// cbVar returns the callback variable (parameter or captured) an expression denotes, following
// aliases created by inlining.
func (p *Proc) cbVar(ec *ectx, e ast.Expr) *types.Var {
	v := p.varOfExpr(ec, e)
	for i := 0; v != nil && i < 8; i++ {
		if a, ok := p.cbAlias[v]; ok {
			v = a
			continue
		}
		break
	}
	if v != nil && p.cbParams[v.Name()] == v {
		return v
	}
	return nil
}

func (p *Proc) varOfExpr(ec *ectx, e ast.Expr) *types.Var {
	id, ok := ast.Unparen(e).(*ast.Ident)
	if !ok || ec.info == nil {
		return nil
	}
	v, _ := ec.info.Uses[id].(*types.Var)
	return v
}

func (p *Proc) wholePrefix(whole map[string]bool, k string) bool {
	for w := range whole {
		if strings.HasPrefix(w, "$pfx:") && keyMatches(k, strings.TrimPrefix(w, "$pfx:")) {
			return true
		}
	}
	return false
}
