package main

import (
	"flag"
	"fmt"
	"os"
	"regexp"
	"runtime"
	"sort"
	"strings"
	"time"
)

func usage() {
	fmt.Fprintln(os.Stderr, `usage:
  govc verify [-repo DIR] [-f REGEX] [-v] [-keep]     verify procedures under contract (debugging)
  govc check -p CXX [-tier quick|thorough]            property check (writes evidence)
  govc replay PATH                                    re-run a replay file
  govc selftest [-p CXX]                              must-fail corpus`)
	os.Exit(2)
}

func main() {
	if len(os.Args) < 2 {
		usage()
	}
	switch os.Args[1] {
	case "verify":
		cmdVerify(os.Args[2:])
	case "check":
		cmdCheck(os.Args[2:])
	case "replay":
		cmdReplay(os.Args[2:])
	case "selftest":
		cmdSelftest(os.Args[2:])
	case "audit":
		c, err := loadAll("/repo", nil)
		if err != nil {
			fmt.Println(err)
			os.Exit(2)
		}
		var keys []string
		for k := range c.contracts {
			keys = append(keys, k)
		}
		sort.Strings(keys)
		for _, k := range keys {
			ct := c.contracts[k]
			if ct.Kind != "func" && ct.Kind != "closure" {
				continue
			}
			tags := map[string]bool{}
			for _, cl := range ct.Clauses {
				for _, t := range cl.Tags {
					tags[t] = true
				}
			}
			var ts []string
			for t := range tags {
				ts = append(ts, t)
			}
			sort.Strings(ts)
			status := "verified under " + strings.Join(ts, ",")
			if ct.Trusted {
				status = "TRUSTED"
			} else if len(ts) == 0 {
				status = "UNTAGGED (verified by no check)"
			}
			fmt.Printf("%-70s %s\n", ct.Name, status)
		}
	case "closures":
		c, err := loadCtx("/repo", nil)
		if err != nil {
			fmt.Println(err)
			os.Exit(2)
		}
		var keys []string
		for k, fi := range c.funcs {
			if fi.Lit != nil && (len(os.Args) < 3 || strings.Contains(k, os.Args[2])) {
				keys = append(keys, k)
			}
		}
		sort.Strings(keys)
		for _, k := range keys {
			fi := c.funcs[k]
			pos := c.fset.Position(fi.Lit.Pos())
			par := ""
			if fi.Parent != nil && fi.Parent.Lit != nil {
				par = " (in " + fi.Parent.Name + ")"
			}
			fmt.Printf("%s  %s:%d%s\n", fi.Name, shortFile(pos.Filename), pos.Line, par)
		}
	default:
		usage()
	}
}

func verifDir() string {
	if d := os.Getenv("VERIF_DIR"); d != "" {
		return d
	}
	return "/verif"
}

// procResult is the outcome of verifying one procedure.
type procResult struct {
	fi         *FuncInfo
	proc       *Proc
	err        error
	obls       []*Obligation
	probes     []*Obligation
	callProbes []*Obligation
}

// hasSafety reports whether the contract claims panic freedom.
func hasSafety(ct *Contract) bool {
	return ct != nil && len(ct.ByKind("safety")) > 0
}

func isSafetyKind(k string) bool {
	switch k {
	case "index", "slice", "nilderef", "nilmap", "makecap", "typeassert", "panic-unreachable", "divzero":
		return true
	}
	return false
}

// runProcs symbolically executes the selected procedures.
func runProcs(c *Ctx, keys []string) []*procResult {
	var out []*procResult
	for _, k := range keys {
		fi := c.funcs[k]
		p := newProc(c, fi)
		err := p.Run()
		r := &procResult{fi: fi, proc: p, err: err}
		counts := map[string]int{}
		for _, ob := range p.obls {
			counts[ob.Name]++
			if n := counts[ob.Name]; n > 1 {
				ob.Name = fmt.Sprintf("%s@%d", ob.Name, n)
			}
		}
		r.obls = p.obls
		r.probes = p.probes
		r.callProbes = p.callProbes
		out = append(out, r)
	}
	return out
}

func contractKeys(c *Ctx, re *regexp.Regexp) []string {
	var keys []string
	for k, ct := range c.contracts {
		if ct.Kind != "func" && ct.Kind != "closure" {
			continue
		}
		if ct.Trusted {
			continue
		}
		fi := c.funcs[k]
		if fi == nil || fi.Body() == nil {
			continue
		}
		if re != nil && !re.MatchString(fi.Name) {
			continue
		}
		keys = append(keys, k)
	}
	sort.Strings(keys)
	return keys
}

func cmdVerify(args []string) {
	fs := flag.NewFlagSet("verify", flag.ExitOnError)
	repo := fs.String("repo", "/repo", "repository")
	filter := fs.String("f", "", "regexp on procedure names")
	verbose := fs.Bool("v", false, "verbose")
	keep := fs.Bool("keep", false, "keep query files")
	timeout := fs.Int("t", 10000, "solver timeout ms")
	fs.Parse(args)
	t0 := time.Now()
	c, err := loadAll(*repo, nil)
	if err != nil {
		fmt.Fprintln(os.Stderr, err)
		os.Exit(3)
	}
	var re *regexp.Regexp
	if *filter != "" {
		re = regexp.MustCompile(*filter)
	}
	keys := contractKeys(c, re)
	fmt.Printf("loaded in %.1fs; %d procedures under contract selected\n", time.Since(t0).Seconds(), len(keys))
	res := runProcs(c, keys)
	dir, _ := os.MkdirTemp("", "govc")
	if !*keep {
		defer os.RemoveAll(dir)
	}
	var all []*Obligation
	facts := map[*Obligation][]*Term{}
	for _, ob := range c.lemmaObls {
		if re == nil || re.MatchString(ob.Name) {
			all = append(all, ob)
		}
	}
	for _, r := range res {
		if r.err != nil {
			fmt.Printf("ERROR %s\n", r.err)
			continue
		}
		safety := hasSafety(r.proc.contract)
		for _, ob := range r.obls {
			if isSafetyKind(ob.Kind) && !safety {
				continue
			}
			all = append(all, ob)
			facts[ob] = r.proc.entryFacts
		}
		for _, ob := range r.probes {
			all = append(all, ob)
			facts[ob] = r.proc.entryFacts
		}
	}
	solveAll(c, all, facts, dir, *timeout, runtime.NumCPU())
	for _, b := range checkConsistency(c, res, dir) {
		fmt.Printf("INCONSISTENT callee contract at call site: %s\n", b)
	}
	bad := 0
	for _, ob := range all {
		ok := ob.Status == "unsat"
		if ob.ExpectSat {
			ok = ob.Status != "unsat"
		}
		if !ok {
			bad++
		}
		if *verbose || !ok {
			fmt.Printf("%-7s %-8s %6.2fs %s  [%s] %s\n", ob.Status, ob.Solver, ob.Secs, ob.Name, strings.Join(ob.Tags, ","), ob.Where)
			if (!ok || *verbose) && *keep {
				fmt.Printf("        query: %s\n", ob.Query)
			}
		}
	}
	fmt.Printf("%d obligations, %d not discharged, %.1fs total\n", len(all), bad, time.Since(t0).Seconds())
	if *keep {
		fmt.Println("queries in", dir)
	}
	if bad > 0 {
		os.Exit(1)
	}
}

func cmdReplay(args []string)   { fmt.Println("replay: not implemented yet"); os.Exit(2) }


