package main

import (
	"fmt"
	"go/ast"
	"go/constant"
	"go/token"
	"go/types"
	"strconv"
	"strings"
)

// ectx is the evaluation context of one expression.
type ectx struct {
	st    *State
	spec  bool   // specification expression: no obligations, no side effects
	old   *State // state that old(...) refers to
	info  *types.Info
	pkg   *types.Package
	scope *types.Scope // name resolution in spec mode
	pos   token.Pos
	extra map[string]Val
	// result values for `result`, `result0`, ...
	results []Val
	where   string
	noFacts bool // axiom bodies: no side facts
	// evaluating a callee's contract at a call site: the callee's own accounting (callcount,
	// handed, invoked, spawncount, sendcount, resolved) says nothing about the caller's
	atCallSite bool
}

type verr struct{ msg string }

func (p *Proc) failf(n ast.Node, f string, a ...interface{}) {
	pos := ""
	if n != nil && n.Pos().IsValid() {
		pp := p.ctx.fset.Position(n.Pos())
		pos = fmt.Sprintf("%s:%d: ", shortFile(pp.Filename), pp.Line)
	}
	panic(verr{pos + fmt.Sprintf(f, a...)})
}

func shortFile(f string) string {
	if i := strings.Index(f, "/repo/"); i >= 0 {
		return f[i+6:]
	}
	return f
}

func (p *Proc) where(n ast.Node) string {
	if n == nil || !n.Pos().IsValid() {
		return ""
	}
	pp := p.ctx.fset.Position(n.Pos())
	return fmt.Sprintf("%s:%d", shortFile(pp.Filename), pp.Line)
}

func (ec *ectx) sub(st *State) *ectx {
	n := *ec
	n.st = st
	return &n
}

// ---------------------------------------------------------------------------

func deref(t types.Type) (types.Type, bool) {
	if pt, ok := t.Underlying().(*types.Pointer); ok {
		return pt.Elem(), true
	}
	return t, false
}

func isString(t types.Type) bool {
	b, ok := t.Underlying().(*types.Basic)
	return ok && b.Info()&types.IsString != 0
}
func isInteger(t types.Type) bool {
	b, ok := t.Underlying().(*types.Basic)
	return ok && b.Info()&types.IsInteger != 0
}
func isUnsigned(t types.Type) bool {
	b, ok := t.Underlying().(*types.Basic)
	return ok && b.Info()&types.IsUnsigned != 0
}
func isIface(t types.Type) bool {
	_, ok := t.Underlying().(*types.Interface)
	return ok
}
func isPointer(t types.Type) bool {
	_, ok := t.Underlying().(*types.Pointer)
	return ok
}

// convert coerces v to Go type `to` (boxing into interfaces, typing nil and untyped constants).
func (p *Proc) convert(ec *ectx, v Val, to types.Type) *Term {
	if to == nil {
		return v.T
	}
	if v.IsNil {
		return p.ctx.zeroOf(to)
	}
	ts := p.ctx.sortOf(to)
	if isIface(to) {
		if v.Typ != nil && isIface(v.Typ) {
			return v.T
		}
		return p.box(ec, v)
	}
	if v.T.Sort == ts {
		return v.T
	}
	if v.T.Sort == SInt && ts == SBV8 {
		if n, err := strconv.ParseInt(v.T.S, 10, 64); err == nil {
			return BVLit(n)
		}
		return App("(_ int2bv 8)", SBV8, v.T)
	}
	if v.T.Sort == SBV8 && ts == SInt {
		return App("bv2nat", SInt, v.T)
	}
	panic(verr{fmt.Sprintf("%s: cannot convert %s (%s) to %s (%s)", ec.where, v.T.S, v.T.Sort, to, ts)})
}

func (p *Proc) box(ec *ectx, v Val) *Term {
	if v.Typ == nil {
		panic(verr{"box: untyped value " + v.T.S})
	}
	tag := p.ctx.typeTag(v.Typ)
	if isPointer(v.Typ) {
		return IfacePtr(tag, v.T)
	}
	s := v.T.Sort
	fn := "boxid_" + sanitize(string(s))
	un := "unbox_" + sanitize(string(s))
	p.ctx.declare("box:"+string(s), fmt.Sprintf("(declare-fun %s (%s) Int)\n(declare-fun %s (Int) %s)\n(assert (forall ((x %s)) (! (= (%s (%s x)) x) :pattern ((%s x)))))", fn, s, un, s, s, un, fn, fn))
	return IfaceBox(tag, App(fn, SInt, v.T))
}

// ---------------------------------------------------------------------------

func (p *Proc) eval(ec *ectx, e ast.Expr) Val {
	// constants first
	if !ec.spec && ec.info != nil {
		if tv, ok := ec.info.Types[e]; ok && tv.Value != nil {
			return Val{T: constToTerm(p.ctx, tv.Value, tv.Type), Typ: tv.Type}
		}
	}
	switch x := e.(type) {
	case *ast.ParenExpr:
		return p.eval(ec, x.X)
	case *ast.BasicLit:
		return p.evalLit(ec, x)
	case *ast.Ident:
		return p.evalIdent(ec, x)
	case *ast.SelectorExpr:
		return p.evalSelector(ec, x)
	case *ast.StarExpr:
		v := p.eval(ec, x.X)
		return p.derefVal(ec, v, x)
	case *ast.UnaryExpr:
		return p.evalUnary(ec, x)
	case *ast.BinaryExpr:
		return p.evalBinary(ec, x)
	case *ast.CallExpr:
		return p.evalCall(ec, x)
	case *ast.IndexExpr:
		return p.evalIndex(ec, x)
	case *ast.SliceExpr:
		return p.evalSliceExpr(ec, x)
	case *ast.CompositeLit:
		return p.evalCompositeLit(ec, x, false)
	case *ast.FuncLit:
		return p.evalFuncLit(ec, x)
	case *ast.TypeAssertExpr:
		v, ok := p.evalTypeAssert(ec, x)
		if !ec.spec {
			p.oblige(ec.st, "typeassert", p.obName("typeassert", x), nil, ok, p.where(x))
			ec.st.assume(ok)
		}
		return v
	}
	p.failf(e, "unsupported expression %T", e)
	return Val{}
}

func (p *Proc) evalLit(ec *ectx, x *ast.BasicLit) Val {
	switch x.Kind {
	case token.INT:
		n, err := strconv.ParseInt(x.Value, 0, 64)
		if err != nil {
			p.failf(x, "bad int literal %s", x.Value)
		}
		return Val{T: IntLit(n), Typ: types.Typ[types.UntypedInt]}
	case token.CHAR:
		r, _, _, err := strconv.UnquoteChar(x.Value[1:len(x.Value)-1], '\'')
		if err != nil {
			p.failf(x, "bad char literal %s", x.Value)
		}
		return Val{T: IntLit(int64(r)), Typ: types.Typ[types.UntypedRune]}
	case token.STRING:
		s, err := strconv.Unquote(x.Value)
		if err != nil {
			p.failf(x, "bad string literal %s", x.Value)
		}
		return Val{T: p.ctx.strLit(s), Typ: types.Typ[types.UntypedString]}
	}
	p.failf(x, "unsupported literal %s", x.Value)
	return Val{}
}

func (p *Proc) lookupName(ec *ectx, name string, pos token.Pos) types.Object {
	if ec.scope != nil {
		if _, obj := ec.scope.LookupParent(name, pos); obj != nil {
			return obj
		}
	}
	// contract file scope of the package (imports used only by specs)
	if ec.pkg != nil {
		if pk := p.ctx.pkgs[ec.pkg.Path()]; pk != nil {
			if sf := p.ctx.specFiles[ec.pkg.Path()]; sf != nil {
				if sc := pk.TypesInfo.Scopes[sf]; sc != nil {
					if _, obj := sc.LookupParent(name, token.NoPos); obj != nil {
						return obj
					}
				}
			}
		}
	}
	if obj := types.Universe.Lookup(name); obj != nil {
		return obj
	}
	return nil
}

func (p *Proc) evalIdent(ec *ectx, id *ast.Ident) Val {
	if ec.st.bound != nil {
		if v, ok := ec.st.bound[id.Name]; ok {
			return v
		}
	}
	if ec.extra != nil {
		if v, ok := ec.extra[id.Name]; ok {
			return v
		}
	}
	var obj types.Object
	if !ec.spec && ec.info != nil {
		obj = ec.info.Uses[id]
		if obj == nil {
			obj = ec.info.Defs[id]
		}
	}
	if obj == nil {
		if ec.spec {
			switch {
			case id.Name == "result" || strings.HasPrefix(id.Name, "result") && len(id.Name) == 7 && id.Name[6] >= '0' && id.Name[6] <= '9':
				i := 0
				if len(id.Name) == 7 {
					i = int(id.Name[6] - '0')
				}
				if i < len(ec.results) {
					return ec.results[i]
				}
				// a procedure without results may have a local variable of that name
				if o, ok := p.lookupName(ec, id.Name, ec.pos).(*types.Var); ok && o != nil {
					if _, bound := ec.st.vars[o]; bound {
						return p.evalObject(ec, o, id)
					}
				}
				p.failf(id, "%s: no such result %s", ec.where, id.Name)
			}
			if gt, ok := p.ctx.dirs.GhostVars[id.Name]; ok {
				return p.ghostVar(ec, id.Name, gt)
			}
			if v, ok := p.lets[id.Name]; ok {
				return v
			}
			if strings.HasPrefix(id.Name, "rangeidx") {
				if n, err := strconv.Atoi(id.Name[8:]); err == nil {
					if o := p.rangeIdx[p.loopKey(n)]; o != nil {
						if t, ok := ec.st.vars[o]; ok {
							return Val{T: t, Typ: o.Type()}
						}
					}
				}
			}
			if strings.HasPrefix(id.Name, "iters") {
				if n, err := strconv.Atoi(id.Name[5:]); err == nil {
					if o := p.iters[p.loopKey(n)]; o != nil {
						if t, ok := ec.st.vars[o]; ok {
							return Val{T: t, Typ: o.Type()}
						}
					}
				}
			}
			if strings.HasPrefix(id.Name, "visited") {
				if n, err := strconv.Atoi(id.Name[7:]); err == nil {
					if o := p.visited[p.loopKey(n)]; o != nil {
						if t, ok := ec.st.vars[o]; ok {
							return Val{T: t, Typ: o.Type()}
						}
					}
				}
			}
		}
		obj = p.lookupName(ec, id.Name, ec.pos)
	}
	if obj == nil {
		p.failf(id, "%s: unresolved identifier %s", ec.where, id.Name)
	}
	return p.evalObject(ec, obj, id)
}

func (p *Proc) ghostVar(ec *ectx, name, typ string) Val {
	var t types.Type = types.Typ[types.Int]
	switch typ {
	case "bool":
		t = types.Typ[types.Bool]
	case "string":
		t = types.Typ[types.String]
	}
	return Val{T: p.heapGet(ec.st, "G:"+name, p.ctx.sortOf(t)), Typ: t}
}

func (p *Proc) evalObject(ec *ectx, obj types.Object, n ast.Node) Val {
	switch o := obj.(type) {
	case *types.Nil:
		return Val{IsNil: true, T: IntLit(0), Typ: types.Typ[types.UntypedNil]}
	case *types.Const:
		return Val{T: constToTerm(p.ctx, o.Val(), o.Type()), Typ: o.Type()}
	case *types.Var:
		if t, ok := ec.st.vars[o]; ok {
			if p.boxed[o] {
				// variable lives on the heap; t is its address
				return p.loadBoxed(ec, o, t)
			}
			return Val{T: t, Typ: o.Type()}
		}
		if o.Pkg() != nil && o.Parent() == o.Pkg().Scope() {
			return p.globalVar(ec, o)
		}
		if o.IsField() {
			p.failf(n, "field %s used as a variable", o.Name())
		}
		if p.lenient {
			v := Val{T: p.freshConst("x_"+o.Name(), p.ctx.sortOf(o.Type())), Typ: o.Type()}
			ec.st.vars[o] = v.T
			p.wfAssume(ec.st, v)
			return v
		}
		p.failf(n, "%s: variable %s has no value here", ec.where, o.Name())
	case *types.Func:
		// function value
		name := "fn_" + sanitize(funcKeyOf(o))
		p.ctx.declare("fn:"+name, fmt.Sprintf("(declare-fun %s () Int)\n(assert (> %s 0))", name, name))
		return Val{T: T(name, SInt), Typ: o.Type(), Fn: o}
	case *types.Builtin, *types.TypeName, *types.PkgName:
		p.failf(n, "%s used as a value", obj.Name())
	}
	p.failf(n, "unsupported object %T", obj)
	return Val{}
}

// globalVar models a package-level variable as an immutable constant.
func (p *Proc) globalVar(ec *ectx, o *types.Var) Val {
	name := "G_" + sanitize(shortPkg(o.Pkg().Path())+"_"+o.Name())
	s := p.ctx.sortOf(o.Type())
	if !p.ctx.declared["gv:"+name] {
		p.ctx.declare("gv:"+name, fmt.Sprintf("(declare-fun %s () %s)", name, s))
		p.ctx.initGlobal(p, o, name, s)
	}
	p.ctx.notes["package-level variables are never reassigned after initialisation (checked: no assignment in the loaded packages)"] = true
	return Val{T: T(name, s), Typ: o.Type()}
}

func (p *Proc) loadBoxed(ec *ectx, o *types.Var, addr *Term) Val {
	return p.loadCell(ec, o.Type(), addr)
}

// loadCell reads a value of type t from the heap cell at addr.
func (p *Proc) loadCell(ec *ectx, t types.Type, addr *Term) Val {
	if st, ok := t.Underlying().(*types.Struct); ok && !opaqueStruct(t) {
		args := make([]*Term, st.NumFields())
		for i := range args {
			f := st.Field(i)
			args[i] = Sel(p.fieldHeap(ec.st, t, f), addr)
		}
		s := p.ctx.sortOf(t)
		return Val{T: App("mk_"+string(s), s, args...), Typ: t}
	}
	return Val{T: Sel(p.ptrHeap(ec.st, t), addr), Typ: t}
}

// fieldHeap returns the heap array of a struct field.
func (p *Proc) fieldHeapKey(owner types.Type, f *types.Var) string {
	return "F:" + p.ctx.structName(owner) + "." + f.Name()
}

func (p *Proc) fieldHeap(st *State, owner types.Type, f *types.Var) *Term {
	if p.ctx.isImmutable(owner, f) {
		return p.ctx.immutableArr(owner, f)
	}
	return p.heapGet(st, p.fieldHeapKey(owner, f), ArrSort(SInt, p.ctx.sortOf(f.Type())))
}

// immutableArr is the global (never updated) array of an immutable field.
func (c *Ctx) immutableArr(owner types.Type, f *types.Var) *Term {
	name := "IF_" + sanitize(c.structName(owner)+"_"+f.Name())
	s := ArrSort(SInt, c.sortOf(f.Type()))
	c.declare("if:"+name, fmt.Sprintf("(declare-fun %s () %s)", name, s))
	return T(name, s)
}

func (p *Proc) ptrHeapKey(elem types.Type) string {
	return "P:" + string(p.ctx.sortOf(elem))
}
func (p *Proc) ptrHeap(st *State, elem types.Type) *Term {
	return p.heapGet(st, p.ptrHeapKey(elem), ArrSort(SInt, p.ctx.sortOf(elem)))
}

func (p *Proc) nilCheck(ec *ectx, ref *Term, n ast.Node) {
	if ec.spec {
		return
	}
	g := Neq(ref, IntLit(0))
	p.oblige(ec.st, "nilderef", p.obName("nilderef", n), nil, g, p.where(n))
	ec.st.assume(g)
}

func (p *Proc) derefVal(ec *ectx, v Val, n ast.Node) Val {
	elem, ok := deref(v.Typ)
	if !ok {
		p.failf(n, "deref of non-pointer %s", v.Typ)
	}
	p.nilCheck(ec, v.T, n)
	if st, ok := elem.Underlying().(*types.Struct); ok && !opaqueStruct(elem) {
		args := make([]*Term, st.NumFields())
		for i := range args {
			args[i] = Sel(p.fieldHeap(ec.st, elem, st.Field(i)), v.T)
		}
		s := p.ctx.sortOf(elem)
		return Val{T: App("mk_"+string(s), s, args...), Typ: elem}
	}
	return Val{T: Sel(p.ptrHeap(ec.st, elem), v.T), Typ: elem}
}

// fieldStep reads field f (index i of struct type owner) from base.
func (p *Proc) fieldStep(ec *ectx, base Val, idx int, n ast.Node) Val {
	bt := base.Typ
	if elem, isPtr := deref(bt); isPtr {
		stt, ok := elem.Underlying().(*types.Struct)
		if !ok {
			p.failf(n, "field access on pointer to non-struct %s", bt)
		}
		f := stt.Field(idx)
		p.nilCheck(ec, base.T, n)
		h := p.fieldHeap(ec.st, elem, f)
		t := Sel(h, base.T)
		v := Val{T: t, Typ: f.Type()}
		p.wfAssume(ec.st, v)
		p.entryAllocated(ec.st, v, h)
		p.entryAllocatedImmutable(ec.st, v, h, base.T)
		return v
	}
	stt, ok := bt.Underlying().(*types.Struct)
	if !ok {
		p.failf(n, "field access on non-struct %s", bt)
	}
	f := stt.Field(idx)
	s := p.ctx.sortOf(bt)
	return Val{T: App(string(s)+"_"+f.Name(), p.ctx.sortOf(f.Type()), base.T), Typ: f.Type()}
}

func (p *Proc) evalSelector(ec *ectx, x *ast.SelectorExpr) Val {
	// qualified identifier?
	if id, ok := x.X.(*ast.Ident); ok {
		var obj types.Object
		if !ec.spec && ec.info != nil {
			obj = ec.info.Uses[id]
		} else if ec.st.bound == nil || ec.st.bound[id.Name].T == nil {
			if ec.extra == nil || ec.extra[id.Name].T == nil {
				obj = p.lookupName(ec, id.Name, ec.pos)
			}
		}
		if pn, ok := obj.(*types.PkgName); ok {
			member := pn.Imported().Scope().Lookup(x.Sel.Name)
			if member == nil {
				p.failf(x, "no %s in package %s", x.Sel.Name, pn.Imported().Path())
			}
			return p.evalObject(ec, member, x)
		}
	}
	base := p.eval(ec, x.X)
	return p.selectField(ec, base, x.Sel.Name, x)
}

func (p *Proc) selectField(ec *ectx, base Val, name string, n ast.Node) Val {
	obj, index, _ := types.LookupFieldOrMethod(base.Typ, true, ec.pkg, name)
	if obj == nil && ec.pkg != nil {
		// unexported field of another package (specs may look inside)
		if nt := namedOf(base.Typ); nt != nil && nt.Obj().Pkg() != nil {
			obj, index, _ = types.LookupFieldOrMethod(base.Typ, true, nt.Obj().Pkg(), name)
		}
	}
	if obj == nil {
		p.failf(n, "%s: no field or method %s in %s", ec.where, name, base.Typ)
	}
	if _, isVar := obj.(*types.Var); !isVar {
		if fn, ok := obj.(*types.Func); ok {
			// method value
			return Val{T: p.freshConst("methodval", SInt), Typ: fn.Type(), Fn: fn}
		}
		p.failf(n, "%s: %s is not a field", ec.where, name)
	}
	cur := base
	for _, i := range index {
		cur = p.fieldStep(ec, cur, i, n)
	}
	return cur
}

func namedOf(t types.Type) *types.Named {
	if pt, ok := t.Underlying().(*types.Pointer); ok {
		t = pt.Elem()
	}
	if pt, ok := t.(*types.Pointer); ok {
		t = pt.Elem()
	}
	nt, _ := t.(*types.Named)
	return nt
}

// wfAssume adds well-formedness facts for freshly read values.
func (p *Proc) wfAssume(st *State, v Val) {
	if v.T == nil || v.Typ == nil || hasBound(v.T.S) {
		return // terms over quantifier-bound variables get no side facts
	}
	switch v.T.Sort {
	case SSlice:
		if strings.HasPrefix(v.T.S, "(mk_slice") {
			return
		}
		st.assume(App("slice_wf", SBool, v.T))
		// backing arrays reachable from the state are allocated (a fresh array never aliases them)
		al := p.heapGet(st, "AL:", ArrSort(SInt, SBool))
		st.assume(Or(Eq(SlArr(v.T), IntLit(0)), Sel(al, SlArr(v.T))))
	case SInt:
		if strings.HasPrefix(v.T.S, "(") || strings.HasPrefix(v.T.S, "|") {
			if b, ok := v.Typ.Underlying().(*types.Basic); ok && b.Info()&types.IsInteger != 0 {
				switch b.Kind() {
				case types.Uint8:
					st.assume(And(Le(IntLit(0), v.T), Le(v.T, IntLit(255))))
				case types.Uint, types.Uint16, types.Uint32, types.Uint64, types.Uintptr:
					st.assume(Le(IntLit(0), v.T))
				}
			} else {
				switch v.Typ.Underlying().(type) {
				case *types.Pointer, *types.Map:
					st.assume(Le(IntLit(0), v.T))
					// every reference reachable from the state is allocated (fresh objects never alias them)
					al := p.heapGet(st, "AL:", ArrSort(SInt, SBool))
					st.assume(Or(Eq(v.T, IntLit(0)), Sel(al, v.T)))
				case *types.Chan, *types.Signature:
					st.assume(Le(IntLit(0), v.T))
				}
			}
		}
	}
}

// ---------------------------------------------------------------------------

func (p *Proc) evalUnary(ec *ectx, x *ast.UnaryExpr) Val {
	switch x.Op {
	case token.AND:
		return p.evalAddrOf(ec, x)
	case token.ARROW:
		if ec.spec {
			p.failf(x, "channel receive in spec")
		}
		v := p.eval(ec, x.X)
		ch, ok := v.Typ.Underlying().(*types.Chan)
		if !ok {
			p.failf(x, "receive from non-channel")
		}
		r := Val{T: p.freshConst("recv", p.ctx.sortOf(ch.Elem())), Typ: ch.Elem()}
		p.wfAssume(ec.st, r)
		return r
	}
	v := p.eval(ec, x.X)
	switch x.Op {
	case token.NOT:
		return Val{T: Not(v.T), Typ: v.Typ}
	case token.SUB:
		return Val{T: App("-", SInt, v.T), Typ: v.Typ}
	case token.ADD:
		return v
	case token.XOR:
		if v.T.Sort == SBV8 {
			return Val{T: App("bvnot", SBV8, v.T), Typ: v.Typ}
		}
		return Val{T: Sub(App("-", SInt, v.T), IntLit(1)), Typ: v.Typ}
	}
	p.failf(x, "unsupported unary operator %s", x.Op)
	return Val{}
}

func (p *Proc) evalAddrOf(ec *ectx, x *ast.UnaryExpr) Val {
	switch y := x.X.(type) {
	case *ast.CompositeLit:
		return p.evalCompositeLit(ec, y, true)
	case *ast.ParenExpr:
		return p.evalAddrOf(ec, &ast.UnaryExpr{Op: token.AND, X: y.X, OpPos: x.OpPos})
	case *ast.Ident:
		var obj types.Object
		if ec.info != nil {
			obj = ec.info.Uses[y]
		} else if ec.spec {
			obj = p.lookupName(ec, y.Name, ec.pos)
		}
		if o, ok := obj.(*types.Var); ok && p.boxed[o] {
			if a, ok := ec.st.vars[o]; ok {
				return Val{T: a, Typ: types.NewPointer(o.Type())}
			}
		}
	}
	p.failf(x, "unsupported address-of expression")
	return Val{}
}

func (p *Proc) alloc(st *State, hint string) *Term {
	r := p.freshConst("new_"+hint, SInt)
	al := p.heapGet(st, "AL:", ArrSort(SInt, SBool))
	st.assume(Gt(r, IntLit(0)))
	st.assume(Not(Sel(al, r)))
	p.heapSet(st, "AL:", Store(al, r, TTrue))
	return r
}

func (p *Proc) evalCompositeLit(ec *ectx, x *ast.CompositeLit, addr bool) Val {
	var typ types.Type
	if ec.info != nil {
		typ = ec.info.TypeOf(x)
	}
	if typ == nil {
		p.failf(x, "composite literal without type information")
	}
	switch ut := typ.Underlying().(type) {
	case *types.Struct:
		vals := make([]*Term, ut.NumFields())
		for i := range vals {
			vals[i] = p.ctx.zeroOf(ut.Field(i).Type())
		}
		for i, el := range x.Elts {
			if kv, ok := el.(*ast.KeyValueExpr); ok {
				name := kv.Key.(*ast.Ident).Name
				fi := -1
				for j := 0; j < ut.NumFields(); j++ {
					if ut.Field(j).Name() == name {
						fi = j
					}
				}
				if fi < 0 {
					p.failf(kv, "unknown field %s", name)
				}
				vals[fi] = p.convert(ec, p.eval(ec, kv.Value), ut.Field(fi).Type())
				p.pendingStore(ec, typ, ut.Field(fi), kv.Value)
			} else {
				vals[i] = p.convert(ec, p.eval(ec, el), ut.Field(i).Type())
			}
		}
		if addr {
			r := p.alloc(ec.st, p.ctx.structName(typ))
			if opaqueStruct(typ) {
				// a struct type of another module: only its exported fields of basic type are
				// modelled (those a contract can read); the literal gives them their values,
				// or their zero values
				for i := 0; i < ut.NumFields(); i++ {
					f := ut.Field(i)
					if _, basic := f.Type().Underlying().(*types.Basic); !basic || !f.Exported() {
						continue
					}
					key := p.fieldHeapKey(typ, f)
					h := p.fieldHeap(ec.st, typ, f)
					p.heapSet(ec.st, key, Store(h, r, vals[i]))
				}
				return Val{T: r, Typ: types.NewPointer(typ)}
			}
			for i := 0; i < ut.NumFields(); i++ {
				f := ut.Field(i)
				if isSyncType(f.Type()) {
					continue
				}
				key := p.fieldHeapKey(typ, f)
				h := p.fieldHeap(ec.st, typ, f)
				if p.ctx.isImmutable(typ, f) {
					ec.st.assume(Eq(Sel(h, r), vals[i]))
				} else {
					p.heapSet(ec.st, key, Store(h, r, vals[i]))
				}
			}
			return Val{T: r, Typ: types.NewPointer(typ)}
		}
		if opaqueStruct(typ) {
			return Val{T: p.freshConst("opaque", p.ctx.sortOf(typ)), Typ: typ}
		}
		s := p.ctx.sortOf(typ)
		return Val{T: App("mk_"+string(s), s, vals...), Typ: typ}
	case *types.Array:
		arr := p.ctx.zeroOf(typ)
		for i, el := range x.Elts {
			if _, ok := el.(*ast.KeyValueExpr); ok {
				p.failf(el, "keyed array literal unsupported")
			}
			arr = Store(arr, IntLit(int64(i)), p.convert(ec, p.eval(ec, el), ut.Elem()))
		}
		return Val{T: arr, Typ: typ}
	case *types.Slice:
		n := int64(len(x.Elts))
		es := p.ctx.sortOf(ut.Elem())
		r := p.alloc(ec.st, "arr")
		inner := T(fmt.Sprintf("((as const %s) %s)", ArrSort(SInt, es), p.ctx.zeroOf(ut.Elem()).S), ArrSort(SInt, es))
		for i, el := range x.Elts {
			if _, ok := el.(*ast.KeyValueExpr); ok {
				p.failf(el, "keyed slice literal unsupported")
			}
			inner = Store(inner, IntLit(int64(i)), p.convert(ec, p.eval(ec, el), ut.Elem()))
		}
		key := p.sliceHeapKey(ut.Elem())
		h := p.heapGet(ec.st, key, ArrSort(SInt, ArrSort(SInt, es)))
		p.heapSet(ec.st, key, Store(h, r, inner))
		return Val{T: MkSlice(r, IntLit(0), IntLit(n), IntLit(n)), Typ: typ}
	case *types.Map:
		m := p.makeMap(ec.st, ut)
		mv := Val{T: m, Typ: typ}
		for _, el := range x.Elts {
			kv := el.(*ast.KeyValueExpr)
			k := p.convert(ec, p.eval(ec, kv.Key), ut.Key())
			v := p.convert(ec, p.eval(ec, kv.Value), ut.Elem())
			p.mapStore(ec, mv, k, v, x)
		}
		return mv
	}
	p.failf(x, "unsupported composite literal of type %s", typ)
	return Val{}
}

func isSyncType(t types.Type) bool {
	nt, ok := t.(*types.Named)
	if !ok || nt.Obj().Pkg() == nil {
		return false
	}
	return nt.Obj().Pkg().Path() == "sync"
}

func (c *Ctx) isImmutable(owner types.Type, f *types.Var) bool {
	nt, ok := owner.(*types.Named)
	if !ok || nt.Obj().Pkg() == nil {
		return false
	}
	return c.dirs.Immutable[nt.Obj().Pkg().Path()+"."+nt.Obj().Name()+"."+f.Name()]
}

func (p *Proc) evalFuncLit(ec *ectx, x *ast.FuncLit) Val {
	if ec.spec {
		p.failf(x, "function literal in spec")
	}
	id := p.freshConst("closure", SInt)
	ec.st.assume(Gt(id, IntLit(0)))
	ord := 0
	top := p.fi
	for top.Parent != nil {
		top = top.Parent
	}
	for i, l := range top.Lits {
		if l == x {
			ord = i + 1
		}
	}
	cv := &ClosureVal{Lit: x, Ordinal: ord, ID: id}
	var typ types.Type
	if ec.info != nil {
		typ = ec.info.TypeOf(x)
	}
	p.onClosureCreated(ec, cv)
	return Val{T: id, Typ: typ, Closure: cv}
}

// ---------------------------------------------------------------------------

func (p *Proc) evalBinary(ec *ectx, x *ast.BinaryExpr) Val {
	switch x.Op {
	case token.LAND, token.LOR:
		return p.evalShortCircuit(ec, x)
	}
	l := p.eval(ec, x.X)
	r := p.eval(ec, x.Y)
	return p.binop(ec, x.Op, l, r, x)
}

func (p *Proc) evalShortCircuit(ec *ectx, x *ast.BinaryExpr) Val {
	l := p.eval(ec, x.X)
	guard := l.T
	if x.Op == token.LOR {
		guard = Not(l.T)
	}
	if ec.spec {
		r := p.eval(ec, x.Y)
		if x.Op == token.LAND {
			return Val{T: And(l.T, r.T), Typ: l.Typ}
		}
		return Val{T: Or(l.T, r.T), Typ: l.Typ}
	}
	// evaluate rhs under the guard; if it has effects, fork and merge
	if hasEffects(ec.info, x.Y) {
		st2 := ec.st.clone()
		st2.assume(guard)
		r := p.eval(ec.sub(st2), x.Y)
		res := p.freshConst("sc", SBool)
		st2.assume(Eq(res, r.T))
		st1 := ec.st.clone()
		st1.assume(Not(guard))
		st1.assume(Eq(res, BoolLit(x.Op == token.LOR)))
		m := p.mergeForce([]*State{st2, st1})
		if len(m) != 1 {
			p.failf(x, "cannot merge short-circuit states")
		}
		*ec.st = *m[0]
		return Val{T: res, Typ: l.Typ}
	}
	n := len(ec.st.pc)
	ec.st.assume(guard)
	r := p.eval(ec, x.Y)
	// facts learnt while evaluating rhs hold only under guard
	extra := ec.st.pc[n+1:]
	ec.st.pc = ec.st.pc[:n]
	for _, f := range extra {
		ec.st.assume(Imp(guard, f))
	}
	if x.Op == token.LAND {
		return Val{T: And(l.T, r.T), Typ: l.Typ}
	}
	return Val{T: Or(l.T, r.T), Typ: l.Typ}
}

// hasEffects reports whether evaluating e may change the state (calls other than builtins/conversions).
func hasEffects(info *types.Info, e ast.Expr) bool {
	found := false
	ast.Inspect(e, func(n ast.Node) bool {
		switch c := n.(type) {
		case *ast.CallExpr:
			if info != nil {
				if tv, ok := info.Types[c.Fun]; ok && (tv.IsType() || tv.IsBuiltin()) {
					if id, ok := c.Fun.(*ast.Ident); ok && (id.Name == "append" || id.Name == "copy" || id.Name == "delete") {
						found = true
					}
					return true
				}
			}
			found = true
		case *ast.FuncLit:
			found = true
			return false
		case *ast.UnaryExpr:
			if c.Op == token.ARROW {
				found = true
			}
		}
		return !found
	})
	return found
}

func (p *Proc) binop(ec *ectx, op token.Token, l, r Val, n ast.Node) Val {
	// nil comparisons
	if l.IsNil || r.IsNil {
		if l.IsNil && r.IsNil {
			return Val{T: BoolLit(op == token.EQL), Typ: types.Typ[types.Bool]}
		}
		if l.IsNil {
			l, r = r, l
		}
		var t *Term
		switch l.T.Sort {
		case SSlice:
			t = Eq(SlArr(l.T), IntLit(0))
		case SIface:
			t = Eq(l.T, NilIface)
		case SInt:
			t = Eq(l.T, IntLit(0))
		default:
			p.failf(n, "nil comparison on sort %s", l.T.Sort)
		}
		if op == token.NEQ {
			t = Not(t)
		}
		return Val{T: t, Typ: types.Typ[types.Bool]}
	}
	// harmonise sorts (untyped constants, interface vs concrete)
	if l.T.Sort != r.T.Sort {
		switch {
		case l.T.Sort == SIface && r.Typ != nil:
			r = Val{T: p.box(ec, r), Typ: l.Typ}
		case r.T.Sort == SIface && l.Typ != nil:
			l = Val{T: p.box(ec, l), Typ: r.Typ}
		case l.T.Sort == SBV8 && r.T.Sort == SInt:
			r = Val{T: p.convert(ec, r, l.Typ), Typ: l.Typ}
		case r.T.Sort == SBV8 && l.T.Sort == SInt:
			l = Val{T: p.convert(ec, l, r.Typ), Typ: r.Typ}
		default:
			p.failf(n, "%s: operand sorts differ: %s:%s %s %s:%s", ec.where, l.T.S, l.T.Sort, op, r.T.S, r.T.Sort)
		}
	}
	typ := l.Typ
	if b, ok := typ.(*types.Basic); ok && b.Info()&types.IsUntyped != 0 && r.Typ != nil {
		typ = r.Typ
	}
	boolT := types.Typ[types.Bool]
	s := l.T.Sort
	switch op {
	case token.EQL, token.NEQ:
		var t *Term
		if s == SStr {
			t = p.strEq(ec, l.T, r.T)
		} else {
			t = Eq(l.T, r.T)
		}
		if op == token.NEQ {
			t = Not(t)
		}
		return Val{T: t, Typ: boolT}
	}
	if s == SStr {
		if op == token.ADD {
			return Val{T: StrCat(l.T, r.T), Typ: typ}
		}
		p.failf(n, "unsupported string operator %s", op)
	}
	if s == SBV8 {
		switch op {
		case token.OR:
			return Val{T: App("bvor", SBV8, l.T, r.T), Typ: typ}
		case token.AND:
			return Val{T: App("bvand", SBV8, l.T, r.T), Typ: typ}
		case token.XOR:
			return Val{T: App("bvxor", SBV8, l.T, r.T), Typ: typ}
		case token.AND_NOT:
			return Val{T: App("bvand", SBV8, l.T, App("bvnot", SBV8, r.T)), Typ: typ}
		case token.LSS:
			return Val{T: App("bvult", SBool, l.T, r.T), Typ: boolT}
		case token.GTR:
			return Val{T: App("bvugt", SBool, l.T, r.T), Typ: boolT}
		case token.LEQ:
			return Val{T: App("bvule", SBool, l.T, r.T), Typ: boolT}
		case token.GEQ:
			return Val{T: App("bvuge", SBool, l.T, r.T), Typ: boolT}
		case token.ADD:
			return Val{T: App("bvadd", SBV8, l.T, r.T), Typ: typ}
		case token.SUB:
			return Val{T: App("bvsub", SBV8, l.T, r.T), Typ: typ}
		}
		p.failf(n, "unsupported bit-vector operator %s", op)
	}
	if s == SBool {
		p.failf(n, "unsupported boolean operator %s", op)
	}
	if s != SInt {
		p.failf(n, "unsupported operator %s on sort %s", op, s)
	}
	switch op {
	case token.LSS:
		return Val{T: Lt(l.T, r.T), Typ: boolT}
	case token.GTR:
		return Val{T: Gt(l.T, r.T), Typ: boolT}
	case token.LEQ:
		return Val{T: Le(l.T, r.T), Typ: boolT}
	case token.GEQ:
		return Val{T: Ge(l.T, r.T), Typ: boolT}
	case token.ADD:
		return Val{T: Add(l.T, r.T), Typ: typ}
	case token.SUB:
		return Val{T: Sub(l.T, r.T), Typ: typ}
	case token.MUL:
		return Val{T: Mul(l.T, r.T), Typ: typ}
	case token.QUO:
		if !ec.spec {
			p.oblige(ec.st, "divzero", p.obName("divzero", n), nil, Neq(r.T, IntLit(0)), p.where(n))
		}
		p.ctx.notes["integer division and remainder are modelled on non-negative operands (SMT div/mod)"] = true
		return Val{T: App("div", SInt, l.T, r.T), Typ: typ}
	case token.REM:
		if !ec.spec {
			p.oblige(ec.st, "divzero", p.obName("divzero", n), nil, Neq(r.T, IntLit(0)), p.where(n))
		}
		return Val{T: App("mod", SInt, l.T, r.T), Typ: typ}
	case token.OR, token.AND, token.XOR, token.AND_NOT, token.SHL, token.SHR:
		fn := map[token.Token]string{token.OR: "int_or", token.AND: "int_and", token.XOR: "int_xor", token.AND_NOT: "int_andnot", token.SHL: "int_shl", token.SHR: "int_shr"}[op]
		p.ctx.declare("fn:"+fn, fmt.Sprintf("(declare-fun %s (Int Int) Int)", fn))
		p.ctx.notes["bitwise operators on non-flag integers are uninterpreted"] = true
		return Val{T: App(fn, SInt, l.T, r.T), Typ: typ}
	}
	p.failf(n, "unsupported operator %s", op)
	return Val{}
}

// strEq renders string equality; literals are compared pointwise, other pairs get an
// extensionality instance.
func (p *Proc) strEq(ec *ectx, a, b *Term) *Term {
	if a.S == b.S {
		return TTrue
	}
	if v, ok := p.ctx.litValue(b.S); ok {
		return p.strEqLitFact(ec, a, b, v)
	}
	if v, ok := p.ctx.litValue(a.S); ok {
		return p.strEqLitFact(ec, b, a, v)
	}
	return App("streq", SBool, a, b)
}

func (p *Proc) strEqLitFact(ec *ectx, s, lit *Term, v string) *Term {
	if _, ok := p.ctx.litValue(s.S); ok {
		return BoolLit(p.ctx.litVal(s.S) == v)
	}
	pw := p.ctx.strEqLit(s, v)
	if len(v) <= 64 && !ec.noFacts && !hasBound(s.S) {
		ec.st.assume(Eq(App("streq", SBool, s, lit), pw))
	}
	return pw
}

func (c *Ctx) litValue(name string) (string, bool) {
	for v, n := range c.litNames {
		if n == name {
			return v, true
		}
	}
	return "", false
}
func (c *Ctx) litVal(name string) string { v, _ := c.litValue(name); return v }

// ---------------------------------------------------------------------------

// Slice and map heaps are keyed by Go type: values of different Go types never alias.
func (p *Proc) sliceHeapKey(elem types.Type) string { return "SH:" + p.typeKey(elem) }

func (p *Proc) typeKey(t types.Type) string {
	if _, ok := t.Underlying().(*types.Basic); ok {
		if _, named := t.(*types.Named); !named {
			return string(p.ctx.sortOf(t))
		}
	}
	return types.TypeString(t, func(pk *types.Package) string { return pk.Name() })
}
func (p *Proc) sliceHeap(st *State, elem types.Type) *Term {
	es := p.ctx.sortOf(elem)
	return p.heapGet(st, p.sliceHeapKey(elem), ArrSort(SInt, ArrSort(SInt, es)))
}

func (p *Proc) evalIndex(ec *ectx, x *ast.IndexExpr) Val {
	base := p.eval(ec, x.X)
	idx := p.eval(ec, x.Index)
	return p.indexVal(ec, base, idx, x)
}

func (p *Proc) boundsCheck(ec *ectx, kind string, n ast.Node, goal *Term) {
	if ec.spec {
		return
	}
	p.oblige(ec.st, kind, p.obName(kind, n), nil, goal, p.where(n))
	ec.st.assume(goal)
}

func (p *Proc) indexVal(ec *ectx, base, idx Val, n ast.Node) Val {
	switch bt := base.Typ.Underlying().(type) {
	case *types.Basic: // string
		i := p.convert(ec, idx, types.Typ[types.Int])
		p.boundsCheck(ec, "index", n, And(Le(IntLit(0), i), Lt(i, StrLen(base.T))))
		return Val{T: StrAt(base.T, i), Typ: types.Universe.Lookup("byte").Type()}
	case *types.Slice:
		i := p.convert(ec, idx, types.Typ[types.Int])
		p.boundsCheck(ec, "index", n, And(Le(IntLit(0), i), Lt(i, SlLen(base.T))))
		h := p.sliceHeap(ec.st, bt.Elem())
		v := Val{T: Sel(Sel(h, SlArr(base.T)), Add(SlOff(base.T), i)), Typ: bt.Elem()}
		p.wfAssume(ec.st, v)
		return v
	case *types.Array:
		i := p.convert(ec, idx, types.Typ[types.Int])
		p.boundsCheck(ec, "index", n, And(Le(IntLit(0), i), Lt(i, IntLit(bt.Len()))))
		return Val{T: Sel(base.T, i), Typ: bt.Elem()}
	case *types.Map:
		k := p.convert(ec, idx, bt.Key())
		if strings.HasPrefix(string(base.T.Sort), "(Array") {
			return Val{T: Sel(base.T, k), Typ: bt.Elem()}
		}
		v, _ := p.mapLookup(ec, base, k)
		return v
	}
	p.failf(n, "unsupported index base type %s", base.Typ)
	return Val{}
}

func (p *Proc) mapKeys(mt *types.Map) (string, Sort, Sort) {
	ks, vs := p.ctx.sortOf(mt.Key()), p.ctx.sortOf(mt.Elem())
	return "map[" + p.typeKey(mt.Key()) + "]" + p.typeKey(mt.Elem()), ks, vs
}

func (p *Proc) mapHeaps(st *State, mt *types.Map) (dom, val, card *Term) {
	id, ks, vs := p.mapKeys(mt)
	dom = p.heapGet(st, "MD:"+id, ArrSort(SInt, ArrSort(ks, SBool)))
	val = p.heapGet(st, "MV:"+id, ArrSort(SInt, ArrSort(ks, vs)))
	card = p.heapGet(st, "MC:"+id, ArrSort(SInt, SInt))
	return
}

func (p *Proc) mapLookup(ec *ectx, m Val, k *Term) (Val, *Term) {
	mt := m.Typ.Underlying().(*types.Map)
	dom, val, _ := p.mapHeaps(ec.st, mt)
	in := Sel(Sel(dom, m.T), k)
	in = And(Neq(m.T, IntLit(0)), in)
	v := Ite(in, Sel(Sel(val, m.T), k), p.ctx.zeroOf(mt.Elem()))
	res := Val{T: v, Typ: mt.Elem()}
	if !ec.spec {
		res.T = p.define(ec.st, "mapval", res.T)
		p.wfAssume(ec.st, res)
	}
	return res, in
}

func (p *Proc) mapStore(ec *ectx, m Val, k, v *Term, n ast.Node) {
	mt := m.Typ.Underlying().(*types.Map)
	id, _, _ := p.mapKeys(mt)
	dom, val, card := p.mapHeaps(ec.st, mt)
	g := Neq(m.T, IntLit(0))
	p.oblige(ec.st, "nilmap", p.obName("nilmap", n), nil, g, p.where(n))
	ec.st.assume(g)
	in := Sel(Sel(dom, m.T), k)
	p.heapSet(ec.st, "MC:"+id, Store(card, m.T, Add(Sel(card, m.T), Ite(in, IntLit(0), IntLit(1)))))
	p.heapSet(ec.st, "MD:"+id, Store(dom, m.T, Store(Sel(dom, m.T), k, TTrue)))
	p.heapSet(ec.st, "MV:"+id, Store(val, m.T, Store(Sel(val, m.T), k, v)))
}

func (p *Proc) mapDelete(ec *ectx, m Val, k *Term) {
	mt := m.Typ.Underlying().(*types.Map)
	id, _, _ := p.mapKeys(mt)
	dom, _, card := p.mapHeaps(ec.st, mt)
	in := And(Neq(m.T, IntLit(0)), Sel(Sel(dom, m.T), k))
	p.heapSet(ec.st, "MC:"+id, Store(card, m.T, Sub(Sel(card, m.T), Ite(in, IntLit(1), IntLit(0)))))
	p.heapSet(ec.st, "MD:"+id, Ite(Neq(m.T, IntLit(0)), Store(dom, m.T, Store(Sel(dom, m.T), k, TFalse)), dom))
}

func (p *Proc) makeMap(st *State, mt *types.Map) *Term {
	id, ks, _ := p.mapKeys(mt)
	r := p.alloc(st, "map")
	dom, _, card := p.mapHeaps(st, mt)
	empty := T(fmt.Sprintf("((as const %s) false)", ArrSort(ks, SBool)), ArrSort(ks, SBool))
	p.heapSet(st, "MD:"+id, Store(dom, r, empty))
	p.heapSet(st, "MC:"+id, Store(card, r, IntLit(0)))
	return r
}

// mapLen returns len(m) with the facts linking cardinality and domain.
func (p *Proc) mapLen(ec *ectx, m Val) *Term {
	mt := m.Typ.Underlying().(*types.Map)
	_, ks, _ := p.mapKeys(mt)
	dom, _, card := p.mapHeaps(ec.st, mt)
	c := Sel(card, m.T)
	d := Sel(dom, m.T)
	ec.st.assume(Ge(c, IntLit(0)))
	ec.st.assume(T(fmt.Sprintf("(= (= %s 0) (forall ((k!c %s)) (not (select %s k!c))))", c.S, ks, d.S), SBool))
	return c
}

func (p *Proc) evalSliceExpr(ec *ectx, x *ast.SliceExpr) Val {
	base := p.eval(ec, x.X)
	var lo, hi *Term
	if x.Low != nil {
		lo = p.convert(ec, p.eval(ec, x.Low), types.Typ[types.Int])
	} else {
		lo = IntLit(0)
	}
	switch bt := base.Typ.Underlying().(type) {
	case *types.Basic:
		if x.High != nil {
			hi = p.convert(ec, p.eval(ec, x.High), types.Typ[types.Int])
		} else {
			hi = StrLen(base.T)
		}
		p.boundsCheck(ec, "slice", x, And(Le(IntLit(0), lo), Le(lo, hi), Le(hi, StrLen(base.T))))
		if lo.S == "0" && hi.S == StrLen(base.T).S {
			return base
		}
		return Val{T: StrSub(base.T, lo, hi), Typ: base.Typ}
	case *types.Slice:
		if x.High != nil {
			hi = p.convert(ec, p.eval(ec, x.High), types.Typ[types.Int])
		} else {
			hi = SlLen(base.T)
		}
		_ = bt
		p.boundsCheck(ec, "slice", x, And(Le(IntLit(0), lo), Le(lo, hi), Le(hi, SlCap(base.T))))
		t := MkSlice(SlArr(base.T), Add(SlOff(base.T), lo), Sub(hi, lo), Sub(SlCap(base.T), lo))
		return Val{T: t, Typ: base.Typ}
	}
	p.failf(x, "unsupported slice expression on %s", base.Typ)
	return Val{}
}

func (p *Proc) evalTypeAssert(ec *ectx, x *ast.TypeAssertExpr) (Val, *Term) {
	v := p.eval(ec, x.X)
	var to types.Type
	if ec.info != nil && !ec.spec {
		to = ec.info.TypeOf(x.Type)
	} else {
		to = p.resolveType(ec, x.Type)
	}
	if to == nil {
		p.failf(x, "type assertion without type")
	}
	if isIface(to) {
		p.failf(x, "type assertion to interface type unsupported")
	}
	tag := IntLit(int64(p.ctx.typeTag(to)))
	if isPointer(to) {
		ok := And(IsIfacePtr(v.T), Eq(ITag(v.T), tag))
		return Val{T: Ite(ok, IPtr(v.T), IntLit(0)), Typ: to}, ok
	}
	s := p.ctx.sortOf(to)
	ok := And(App("(_ is iface_box)", SBool, v.T), Eq(App("btag", SInt, v.T), tag))
	// make sure box functions are declared
	p.box(ec, Val{T: p.ctx.zeroOf(to), Typ: to})
	un := "unbox_" + sanitize(string(s))
	return Val{T: Ite(ok, App(un, s, App("bid", SInt, v.T)), p.ctx.zeroOf(to)), Typ: to}, ok
}

// resolveType resolves a type expression in spec mode.
func (p *Proc) resolveType(ec *ectx, e ast.Expr) types.Type {
	switch x := e.(type) {
	case *ast.Ident:
		obj := p.lookupName(ec, x.Name, ec.pos)
		if tn, ok := obj.(*types.TypeName); ok {
			return tn.Type()
		}
	case *ast.SelectorExpr:
		if id, ok := x.X.(*ast.Ident); ok {
			obj := p.lookupName(ec, id.Name, ec.pos)
			if pn, ok := obj.(*types.PkgName); ok {
				if tn, ok := pn.Imported().Scope().Lookup(x.Sel.Name).(*types.TypeName); ok {
					return tn.Type()
				}
			} else if obj == nil {
				// a library contract names a type of a package the calling package need not
				// import: resolve it among the packages of the repository itself (by package
				// name; deterministic: the smallest matching path)
				best := ""
				for path, tp := range p.ctx.pkgs {
					if tp.Types != nil && tp.Types.Name() == id.Name && (best == "" || path < best) {
						if _, ok := tp.Types.Scope().Lookup(x.Sel.Name).(*types.TypeName); ok {
							best = path
						}
					}
				}
				if best != "" {
					return p.ctx.pkgs[best].Types.Scope().Lookup(x.Sel.Name).(*types.TypeName).Type()
				}
			}
		}
	case *ast.StarExpr:
		if t := p.resolveType(ec, x.X); t != nil {
			return types.NewPointer(t)
		}
	case *ast.ArrayType:
		if t := p.resolveType(ec, x.Elt); t != nil {
			return types.NewSlice(t)
		}
	case *ast.MapType:
		k, v := p.resolveType(ec, x.Key), p.resolveType(ec, x.Value)
		if k != nil && v != nil {
			return types.NewMap(k, v)
		}
	case *ast.StructType:
		return types.NewStruct(nil, nil)
	case *ast.FuncType:
		return types.NewSignatureType(nil, nil, nil, nil, nil, false)
	case *ast.InterfaceType:
		return types.NewInterfaceType(nil, nil)
	}
	return nil
}

var _ = constant.MakeInt64

// hasBound reports whether a rendered term mentions a quantifier-bound variable.
func hasBound(s string) bool {
	// bound variables are named <name>!<letter>...; fresh constants <name>!<digits>
	for i := 0; i+1 < len(s); i++ {
		if s[i] == '!' && s[i+1] >= 'a' && s[i+1] <= 'z' {
			return true
		}
	}
	return false
}

// pendingStore: a callback stored into a field declared `pending` counts as handed over: the
// owner of the field invokes every stored callback exactly once later (assumption, see notes).
func (p *Proc) pendingStore(ec *ectx, owner types.Type, f *types.Var, val ast.Expr) {
	nt, ok := owner.(*types.Named)
	if !ok || nt.Obj().Pkg() == nil {
		return
	}
	if !p.ctx.dirs.Pending[nt.Obj().Pkg().Path()+"."+nt.Obj().Name()+"."+f.Name()] {
		return
	}
	if v := p.cbVar(ec, val); v != nil {
		ec.st.resolved[v] = Add(orZero(ec.st.resolved[v]), IntLit(1))
		p.ctx.notes["callbacks stored in "+nt.Obj().Name()+"."+f.Name()+" are invoked exactly once later by the code that consumes that field (pending store)"] = true
	}
}

// entryAllocated: a reference read from a heap array that is unchanged since procedure entry
// was allocated at entry (every reference stored in the entry heap is allocated at entry), so
// that it differs from anything allocated later, also across calls.
// entryAllocatedImmutable: an immutable field of an object that existed at procedure entry was
// set before entry, so the reference it holds was allocated at entry as well.
func (p *Proc) entryAllocatedImmutable(st *State, v Val, h *Term, base *Term) {
	if hasBound(v.T.S) || hasBound(base.S) || !strings.HasPrefix(h.S, "IF_") || p.entry == nil {
		return
	}
	var ref *Term
	switch v.Typ.Underlying().(type) {
	case *types.Pointer, *types.Map:
		ref = v.T
	case *types.Slice:
		ref = SlArr(v.T)
	default:
		return
	}
	al0 := p.heapGet(p.entry, "AL:", ArrSort(SInt, SBool))
	st.assume(Imp(Sel(al0, base), Or(Eq(ref, IntLit(0)), Sel(al0, ref))))
}

func (p *Proc) entryAllocated(st *State, v Val, h *Term) {
	if hasBound(v.T.S) || !strings.HasPrefix(h.S, "|H_") || strings.Contains(h.S, "!") {
		return
	}
	var ref *Term
	switch v.Typ.Underlying().(type) {
	case *types.Pointer, *types.Map:
		ref = v.T
	case *types.Slice:
		ref = SlArr(v.T)
	default:
		return
	}
	if p.entry == nil {
		return
	}
	al0 := p.heapGet(p.entry, "AL:", ArrSort(SInt, SBool))
	st.assume(Or(Eq(ref, IntLit(0)), Sel(al0, ref)))
}
