package main

import (
	"fmt"
	"strings"
)

// Sort is an SMT-LIB sort, written out.
type Sort string

const (
	SInt   Sort = "Int"
	SBool  Sort = "Bool"
	SStr   Sort = "Str"
	SSlice Sort = "Slice"
	SIface Sort = "Iface"
	SBV8   Sort = "(_ BitVec 8)"
)

func ArrSort(k, v Sort) Sort { return Sort("(Array " + string(k) + " " + string(v) + ")") }

// Term is a rendered SMT-LIB term with its sort.
type Term struct {
	S    string
	Sort Sort
}

func (t *Term) String() string { return t.S }

func T(s string, sort Sort) *Term { return &Term{S: s, Sort: sort} }

var (
	TTrue  = T("true", SBool)
	TFalse = T("false", SBool)
)

func IntLit(n int64) *Term {
	if n < 0 {
		return T(fmt.Sprintf("(- %d)", -n), SInt)
	}
	return T(fmt.Sprintf("%d", n), SInt)
}

func BoolLit(b bool) *Term {
	if b {
		return TTrue
	}
	return TFalse
}

func BVLit(n int64) *Term { return T(fmt.Sprintf("#x%02x", n&0xff), SBV8) }

func App(name string, sort Sort, args ...*Term) *Term {
	if len(args) == 0 {
		return T(name, sort)
	}
	var b strings.Builder
	b.WriteByte('(')
	b.WriteString(name)
	for _, a := range args {
		b.WriteByte(' ')
		b.WriteString(a.S)
	}
	b.WriteByte(')')
	return T(b.String(), sort)
}

func And(ts ...*Term) *Term {
	var keep []*Term
	for _, t := range ts {
		if t == nil || t.S == "true" {
			continue
		}
		if t.S == "false" {
			return TFalse
		}
		keep = append(keep, t)
	}
	switch len(keep) {
	case 0:
		return TTrue
	case 1:
		return keep[0]
	}
	return App("and", SBool, keep...)
}

func Or(ts ...*Term) *Term {
	var keep []*Term
	for _, t := range ts {
		if t == nil || t.S == "false" {
			continue
		}
		if t.S == "true" {
			return TTrue
		}
		keep = append(keep, t)
	}
	switch len(keep) {
	case 0:
		return TFalse
	case 1:
		return keep[0]
	}
	return App("or", SBool, keep...)
}

func Not(t *Term) *Term {
	switch t.S {
	case "true":
		return TFalse
	case "false":
		return TTrue
	}
	if strings.HasPrefix(t.S, "(not ") {
		inner := t.S[5 : len(t.S)-1]
		if balanced(inner) {
			return T(inner, SBool)
		}
	}
	return App("not", SBool, t)
}

func balanced(s string) bool {
	d := 0
	for i := 0; i < len(s); i++ {
		switch s[i] {
		case '(':
			d++
		case ')':
			d--
			if d < 0 {
				return false
			}
			if d == 0 && i != len(s)-1 {
				return false
			}
		case ' ':
			if d == 0 {
				return false
			}
		}
	}
	return d == 0
}

func Imp(a, b *Term) *Term {
	if a.S == "true" {
		return b
	}
	if a.S == "false" || b.S == "true" {
		return TTrue
	}
	return App("=>", SBool, a, b)
}

func Eq(a, b *Term) *Term {
	if a.S == b.S {
		return TTrue
	}
	if a.Sort != b.Sort {
		panic(fmt.Sprintf("Eq sort mismatch: %s:%s vs %s:%s", a.S, a.Sort, b.S, b.Sort))
	}
	return App("=", SBool, a, b)
}

func Neq(a, b *Term) *Term { return Not(Eq(a, b)) }

func Ite(c, a, b *Term) *Term {
	if c.S == "true" {
		return a
	}
	if c.S == "false" {
		return b
	}
	if a.S == b.S {
		return a
	}
	if a.Sort != b.Sort {
		panic(fmt.Sprintf("Ite sort mismatch: %s:%s vs %s:%s", a.S, a.Sort, b.S, b.Sort))
	}
	return App("ite", a.Sort, c, a, b)
}

func elemSortOfArr(s Sort) (Sort, Sort) {
	// "(Array K V)" -> K, V ; K and V may be parenthesised
	str := string(s)
	if !strings.HasPrefix(str, "(Array ") {
		panic("not an array sort: " + str)
	}
	body := str[7 : len(str)-1]
	// split at top-level space
	d := 0
	for i := 0; i < len(body); i++ {
		switch body[i] {
		case '(':
			d++
		case ')':
			d--
		case ' ':
			if d == 0 {
				return Sort(body[:i]), Sort(body[i+1:])
			}
		}
	}
	panic("bad array sort: " + str)
}

func Sel(a, i *Term) *Term {
	_, v := elemSortOfArr(a.Sort)
	return App("select", v, a, i)
}

func Store(a, i, v *Term) *Term {
	k, vs := elemSortOfArr(a.Sort)
	if i.Sort != k || v.Sort != vs {
		panic(fmt.Sprintf("Store sort mismatch: arr %s idx %s:%s val %s:%s", a.Sort, i.S, i.Sort, v.S, v.Sort))
	}
	return App("store", a.Sort, a, i, v)
}

func Add(a, b *Term) *Term {
	if b.S == "0" {
		return a
	}
	if a.S == "0" {
		return b
	}
	return App("+", SInt, a, b)
}
func Sub(a, b *Term) *Term {
	if b.S == "0" {
		return a
	}
	return App("-", SInt, a, b)
}
func Mul(a, b *Term) *Term { return App("*", SInt, a, b) }
func Lt(a, b *Term) *Term  { return App("<", SBool, a, b) }
func Le(a, b *Term) *Term  { return App("<=", SBool, a, b) }
func Gt(a, b *Term) *Term  { return App(">", SBool, a, b) }
func Ge(a, b *Term) *Term  { return App(">=", SBool, a, b) }

// Slice helpers
func SlArr(s *Term) *Term { return App("s_arr", SInt, s) }
func SlOff(s *Term) *Term { return App("s_off", SInt, s) }
func SlLen(s *Term) *Term { return App("s_len", SInt, s) }
func SlCap(s *Term) *Term { return App("s_cap", SInt, s) }
func MkSlice(arr, off, ln, cp *Term) *Term {
	return App("mk_slice", SSlice, arr, off, ln, cp)
}

var NilSlice = T("(mk_slice 0 0 0 0)", SSlice)

// String helpers
func StrLen(s *Term) *Term       { return App("slen", SInt, s) }
func StrAt(s, i *Term) *Term     { return App("sat", SInt, s, i) }
func StrSub(s, a, b *Term) *Term { return App("ssub", SStr, s, a, b) }
func StrCat(a, b *Term) *Term    { return App("scat", SStr, a, b) }

// Iface helpers
var NilIface = T("iface_nil", SIface)

func IfacePtr(tag int, ref *Term) *Term {
	return App("iface_ptr", SIface, IntLit(int64(tag)), ref)
}
func IfaceBox(tag int, id *Term) *Term {
	return App("iface_box", SIface, IntLit(int64(tag)), id)
}
func IsIfacePtr(x *Term) *Term { return App("(_ is iface_ptr)", SBool, x) }
func ITag(x *Term) *Term       { return App("itag", SInt, x) }
func IPtr(x *Term) *Term       { return App("iptr", SInt, x) }

func sanitize(s string) string {
	var b strings.Builder
	for _, r := range s {
		if (r >= 'a' && r <= 'z') || (r >= 'A' && r <= 'Z') || (r >= '0' && r <= '9') || r == '_' {
			b.WriteRune(r)
		} else {
			b.WriteByte('_')
		}
	}
	return b.String()
}

const prelude = `(set-option :produce-models true)
(set-logic ALL)
(declare-sort Str 0)
(declare-fun slen (Str) Int)
(declare-fun sat (Str Int) Int)
(declare-fun ssub (Str Int Int) Str)
(declare-fun scat (Str Str) Str)
(declare-fun chancap (Int) Int)
(declare-datatypes ((Slice 0)) (((mk_slice (s_arr Int) (s_off Int) (s_len Int) (s_cap Int)))))
(declare-datatypes ((Iface 0)) (((iface_nil) (iface_ptr (itag Int) (iptr Int)) (iface_box (btag Int) (bid Int)))))
(declare-fun streq (Str Str) Bool)
(assert (forall ((s Str) (t Str)) (! (= (streq s t) (= s t)) :pattern ((streq s t)))))
(assert (forall ((s Str) (t Str)) (! (=> (and (= (slen s) (slen t)) (forall ((k Int)) (=> (and (<= 0 k) (< k (slen s))) (= (sat s k) (sat t k))))) (= s t)) :pattern ((streq s t)))))
(define-fun slice_wf ((s Slice)) Bool (and (>= (s_arr s) 0) (>= (s_off s) 0) (>= (s_len s) 0) (<= (s_len s) (s_cap s)) (=> (= (s_arr s) 0) (= (s_cap s) 0))))
(assert (forall ((s Str)) (! (>= (slen s) 0) :pattern ((slen s)))))
(assert (forall ((s Str) (k Int)) (! (and (<= 0 (sat s k)) (<= (sat s k) 255)) :pattern ((sat s k)))))
(assert (forall ((s Str) (a Int) (b Int)) (! (=> (and (<= 0 a) (<= a b) (<= b (slen s))) (= (slen (ssub s a b)) (- b a))) :pattern ((ssub s a b)))))
(assert (forall ((s Str) (a Int) (b Int) (k Int)) (! (=> (and (<= 0 a) (<= a b) (<= b (slen s)) (<= 0 k) (< k (- b a))) (= (sat (ssub s a b) k) (sat s (+ a k)))) :pattern ((sat (ssub s a b) k)))))
(assert (forall ((s Str) (t Str)) (! (= (slen (scat s t)) (+ (slen s) (slen t))) :pattern ((scat s t)))))
(assert (forall ((s Str) (t Str) (k Int)) (! (=> (and (<= 0 k) (< k (+ (slen s) (slen t)))) (= (sat (scat s t) k) (ite (< k (slen s)) (sat s k) (sat t (- k (slen s)))))) :pattern ((sat (scat s t) k)))))
`
