package main

import (
	"encoding/json"
	"flag"
	"fmt"
	"os"
	"os/exec"
	"path/filepath"
	"regexp"
	"runtime"
	"strings"
)

// Mutant is one entry of the must-fail corpus: a textual substitution in one file.
type Mutant struct {
	ID       string   `json:"id"`
	Property string   `json:"property"`
	File     string   `json:"file"` // relative to the repository
	Old      string   `json:"old"`
	New      string   `json:"new"`
	Expect   []string `json:"expect"` // regexps; at least one failing obligation must match one of them
	Note     string   `json:"note,omitempty"`
}

func loadMutants(vd string) ([]Mutant, error) {
	files, _ := filepath.Glob(filepath.Join(vd, "selftest", "*.json"))
	var out []Mutant
	for _, f := range files {
		data, err := os.ReadFile(f)
		if err != nil {
			return nil, err
		}
		var ms []Mutant
		if err := json.Unmarshal(data, &ms); err != nil {
			return nil, fmt.Errorf("%s: %v", f, err)
		}
		out = append(out, ms...)
	}
	return out, nil
}

// runMutant verifies the property on the tree with the substitution applied (through the
// loader overlay; nothing is written to the repository). It returns the failing obligation names.
func runMutant(repo string, m Mutant, timeoutMs int) (failing []string, err error) {
	path := filepath.Join(repo, m.File)
	data, err := os.ReadFile(path)
	if err != nil {
		return nil, err
	}
	if strings.Count(string(data), m.Old) != 1 {
		return nil, fmt.Errorf("mutant %s: pattern occurs %d times in %s", m.ID, strings.Count(string(data), m.Old), m.File)
	}
	mod := strings.Replace(string(data), m.Old, m.New, 1)
	c, err := loadAll(repo, map[string][]byte{path: []byte(mod)})
	if err != nil {
		return []string{"load: " + err.Error()}, nil
	}
	keys := propKeys(c, m.Property)
	res := runProcs(c, keys)
	obls, _, facts, _ := selectObligations(c, m.Property, res)
	dir, _ := os.MkdirTemp("", "govc-mut")
	defer os.RemoveAll(dir)
	solveAll(c, obls, facts, dir, timeoutMs, runtime.NumCPU())
	for _, r := range res {
		if r.err != nil {
			failing = append(failing, r.fi.Name+":engine: "+r.err.Error())
		}
	}
	for _, ob := range obls {
		if ob.Status != "unsat" {
			failing = append(failing, ob.Name)
		}
	}
	return failing, nil
}

// seedOverlay builds the loader overlay for a stored seeded change (a patch file).
func seedOverlay(repo, patchFile string) (map[string][]byte, error) {
	data, err := os.ReadFile(patchFile)
	if err != nil {
		return nil, err
	}
	var files []string
	for _, ln := range strings.Split(string(data), "\n") {
		if strings.HasPrefix(ln, "+++ b/") {
			files = append(files, strings.TrimPrefix(ln, "+++ b/"))
		}
	}
	tmp, err := os.MkdirTemp("", "govc-seed")
	if err != nil {
		return nil, err
	}
	defer os.RemoveAll(tmp)
	for _, f := range files {
		src, err := os.ReadFile(filepath.Join(repo, f))
		if err != nil {
			return nil, err
		}
		os.MkdirAll(filepath.Dir(filepath.Join(tmp, f)), 0o755)
		os.WriteFile(filepath.Join(tmp, f), src, 0o644)
	}
	cmd := exec.Command("patch", "-p1", "-s", "-i", patchFile)
	cmd.Dir = tmp
	if out, err := cmd.CombinedOutput(); err != nil {
		return nil, fmt.Errorf("patch: %v: %s", err, out)
	}
	ov := map[string][]byte{}
	for _, f := range files {
		b, err := os.ReadFile(filepath.Join(tmp, f))
		if err != nil {
			return nil, err
		}
		ov[filepath.Join(repo, f)] = b
	}
	return ov, nil
}

// failingWithOverlay runs the property's obligations on the overlaid tree.
func failingWithOverlay(repo, prop string, ov map[string][]byte, timeoutMs int) []string {
	c, err := loadAll(repo, ov)
	if err != nil {
		return []string{"load: " + err.Error()}
	}
	keys := propKeys(c, prop)
	res := runProcs(c, keys)
	obls, _, facts, _ := selectObligations(c, prop, res)
	dir, _ := os.MkdirTemp("", "govc-mut")
	defer os.RemoveAll(dir)
	solveAll(c, obls, facts, dir, timeoutMs, runtime.NumCPU())
	var failing []string
	for _, r := range res {
		if r.err != nil {
			failing = append(failing, r.fi.Name+":engine: "+r.err.Error())
		}
	}
	for _, ob := range obls {
		if ob.Status != "unsat" {
			failing = append(failing, ob.Name)
		}
	}
	return failing
}

// selftestProperty runs the must-fail corpus of one property (own mutants and stored seeded
// changes); it returns the number of entries and the ones that were NOT reported.
func selftestProperty(repo, prop string, timeoutMs int) (n int, missed []string) {
	ms, _ := loadMutants(verifDir())
	for _, m := range ms {
		if m.Property != prop {
			continue
		}
		n++
		failing, err := runMutant(repo, m, timeoutMs)
		if err != nil || len(failing) == 0 {
			missed = append(missed, "mutant "+m.ID)
		}
	}
	dirs, _ := filepath.Glob(filepath.Join(verifDir(), "seeded", "*", "meta.json"))
	for _, mf := range dirs {
		data, err := os.ReadFile(mf)
		if err != nil {
			continue
		}
		var meta struct {
			Breaks string `json:"breaks_property"`
		}
		json.Unmarshal(data, &meta)
		if meta.Breaks != prop {
			continue
		}
		n++
		ov, err := seedOverlay(repo, filepath.Join(filepath.Dir(mf), "patch.diff"))
		if err != nil {
			// the seed no longer applies to this tree (the code moved on): not counted
			n--
			continue
		}
		if len(failingWithOverlay(repo, prop, ov, timeoutMs)) == 0 {
			missed = append(missed, "seed "+filepath.Base(filepath.Dir(mf)))
		}
	}
	return
}

func cmdSelftest(args []string) {
	fs := flag.NewFlagSet("selftest", flag.ExitOnError)
	repo := fs.String("repo", "/repo", "repository")
	prop := fs.String("p", "", "only mutants of this property")
	only := fs.String("id", "", "only this mutant id (regexp)")
	timeout := fs.Int("t", 10000, "solver timeout ms")
	fs.Parse(args)
	ms, err := loadMutants(verifDir())
	if err != nil {
		fmt.Println("selftest:", err)
		os.Exit(2)
	}
	var idre *regexp.Regexp
	if *only != "" {
		idre = regexp.MustCompile(*only)
	}
	bad := 0
	n := 0
	for _, m := range ms {
		if *prop != "" && m.Property != *prop {
			continue
		}
		if idre != nil && !idre.MatchString(m.ID) {
			continue
		}
		n++
		failing, err := runMutant(*repo, m, *timeout)
		if err != nil {
			fmt.Printf("SELFTEST-ERROR %s: %v\n", m.ID, err)
			bad++
			continue
		}
		hit := ""
		for _, f := range failing {
			for _, e := range m.Expect {
				if ok, _ := regexp.MatchString(e, f); ok {
					hit = f
				}
			}
		}
		switch {
		case hit != "":
			fmt.Printf("caught   %-28s %s (%d failing)\n", m.ID, hit, len(failing))
		case len(failing) > 0:
			fmt.Printf("CAUGHT-ELSEWHERE %-20s expected %v, failing: %v\n", m.ID, m.Expect, clipList(failing, 4))
			bad++
		default:
			fmt.Printf("MISSED   %-28s no obligation failed\n", m.ID)
			bad++
		}
	}
	if *prop != "" {
		ns, missed := selftestProperty(*repo, *prop, *timeout)
		fmt.Printf("must-fail corpus of %s incl. seeded changes: %d entries, missed: %v\n", *prop, ns, missed)
		if len(missed) > 0 {
			bad += len(missed)
		}
	}
	fmt.Printf("selftest: %d mutants, %d not caught as expected\n", n, bad)
	if bad > 0 {
		os.Exit(1)
	}
}

func clipList(xs []string, n int) []string {
	if len(xs) > n {
		return append(xs[:n:n], "...")
	}
	return xs
}
