package main

import (
	"encoding/json"
	"flag"
	"fmt"
	"os"
	"os/exec"
	"path/filepath"
	"regexp"
	"runtime"
	"sort"
	"strconv"
	"strings"
	"time"
)

// KnownFinding is an entry of /verif/known_findings.json.
type KnownFinding struct {
	Property   string `json:"property"`
	Obligation string `json:"obligation"` // obligation name without @n suffix
	What       string `json:"what"`
	Status     string `json:"status"` // "open" or "fixed"
	Commit     string `json:"commit,omitempty"`
	Driver     string `json:"driver,omitempty"`
}

type knownFile struct {
	Findings []KnownFinding `json:"findings"`
}

// Driver describes a replay driver (an in-package test injected with -overlay).
type Driver struct {
	Proc   string `json:"proc"`   // regexp on obligation names
	Pkg    string `json:"pkg"`    // package dir relative to the repo, e.g. server/rescache
	File   string `json:"file"`   // driver file under /verif/replay/drivers
	Test   string `json:"test"`   // test name
	Bound  string `json:"bound"`  // stated search bound
	Note   string `json:"note,omitempty"`
	Target string `json:"target,omitempty"`
}

func baseName(ob string) string {
	if i := strings.LastIndex(ob, "@"); i >= 0 {
		if _, err := strconv.Atoi(ob[i+1:]); err == nil {
			return ob[:i]
		}
	}
	return ob
}

func tagged(tags []string, p string) bool {
	for _, t := range tags {
		if t == p {
			return true
		}
	}
	return false
}

// contractMentions reports whether any clause of the contract is tagged with property p.
func contractMentions(ct *Contract, p string) bool {
	for _, cl := range ct.Clauses {
		if tagged(cl.Tags, p) {
			return true
		}
	}
	return false
}

func safetyFor(ct *Contract, p string) bool {
	for _, cl := range ct.ByKind("safety") {
		if tagged(cl.Tags, p) {
			return true
		}
	}
	return false
}

type checkResult struct {
	prop       string
	tier       string
	procs      []*procResult
	obls       []*Obligation
	probes     []*Obligation
	unclaimed  int
	engineErrs []string
	wall       float64
}

// otherTagged collects, for the selected procedures, the obligations that carry only other
// properties' tags and whose goal is assumed afterwards (everything but exit-time posts): if one
// of them fails, obligations of this property proved after it were proved under a fact that does
// not hold (see unshadow).
var otherTagged []*Obligation
var shadowNote = map[*Obligation]string{}

func selectObligations(c *Ctx, prop string, res []*procResult) (obls, probes []*Obligation, facts map[*Obligation][]*Term, unclaimed int) {
	facts = map[*Obligation][]*Term{}
	otherTagged = nil
	for _, ob := range c.lemmaObls {
		if tagged(ob.Tags, prop) {
			obls = append(obls, ob)
		}
	}
	for _, r := range res {
		if r.err != nil {
			continue
		}
		ct := r.proc.contract
		for _, ob := range r.obls {
			if isSafetyKind(ob.Kind) {
				if !hasSafety(ct) {
					unclaimed++
					continue
				}
			} else if len(ob.Tags) > 0 && !tagged(ob.Tags, prop) {
				if !strings.HasPrefix(ob.Kind, "post") && !strings.HasPrefix(ob.Kind, "resolves") && !strings.HasPrefix(ob.Kind, "frame") {
					otherTagged = append(otherTagged, ob)
					facts[ob] = r.proc.entryFacts
				}
				continue
			}
			obls = append(obls, ob)
			facts[ob] = r.proc.entryFacts
		}
		for _, ob := range r.probes {
			probes = append(probes, ob)
			facts[ob] = r.proc.entryFacts
		}
	}
	return
}

func loadAll(repo string, overlay map[string][]byte) (*Ctx, error) {
	c, err := loadCtx(repo, overlay)
	if err != nil {
		return nil, fmt.Errorf("load: %v", err)
	}
	if err := c.loadContracts(verifDir() + "/lib"); err != nil {
		return nil, fmt.Errorf("contracts: %v", err)
	}
	if err := c.checkImmutables(); err != nil {
		return nil, fmt.Errorf("contracts: %v", err)
	}
	if err := c.prepareLemmas(); err != nil {
		return nil, fmt.Errorf("contracts: %v", err)
	}
	// implementations must promise what the interface contracts promise
	errs, notes := checkImplements(c)
	if len(errs) > 0 {
		return nil, fmt.Errorf("contracts: interface refinement: %s", strings.Join(errs, "; "))
	}
	for _, n := range notes {
		c.notes["interface refinement: "+n] = true
	}
	return c, nil
}

func propKeys(c *Ctx, prop string) []string {
	var keys []string
	for k, ct := range c.contracts {
		if ct.Kind != "func" && ct.Kind != "closure" {
			continue
		}
		if ct.Trusted {
			continue
		}
		fi := c.funcs[k]
		if fi == nil || fi.Body() == nil {
			continue
		}
		if contractMentions(ct, prop) {
			keys = append(keys, k)
			// what a closure requires of its creation (requires, stable) is proved in the
			// function that creates it
			if ct.Kind == "closure" {
				if i := strings.Index(k, "#"); i > 0 {
					pk := k[:i]
					if pct, ok := c.contracts[pk]; ok && !pct.Trusted {
						if pfi := c.funcs[pk]; pfi != nil && pfi.Body() != nil {
							keys = append(keys, pk)
						}
					}
				}
			}
		}
	}
	sort.Strings(keys)
	var uniq []string
	for i, k := range keys {
		if i == 0 || k != keys[i-1] {
			uniq = append(uniq, k)
		}
	}
	return uniq
}

func cmdCheck(args []string) {
	fs := flag.NewFlagSet("check", flag.ExitOnError)
	repo := fs.String("repo", "/repo", "repository")
	prop := fs.String("p", "", "property id")
	tier := fs.String("tier", "quick", "quick|thorough")
	noEvidence := fs.Bool("no-evidence", false, "do not write evidence")
	fs.Parse(args)
	if *prop == "" {
		usage()
	}
	if t := os.Getenv("VERIF_TIER"); t != "" && *tier == "" {
		*tier = t
	}
	seed := 0
	if s := os.Getenv("VERIF_SEED"); s != "" {
		seed, _ = strconv.Atoi(s)
	}
	t0 := time.Now()
	vd := verifDir()
	c, err := loadAll(*repo, nil)
	if err != nil {
		// the tree does not load or a contract no longer binds: undecided, reported as a violation without input
		rp := writeReplay(vd, *prop, "load", map[string]interface{}{
			"property": *prop, "obligation": "load", "evidence": "none", "error": err.Error(),
		})
		fmt.Printf("engine: %v\n", err)
		fmt.Printf("VIOLATION property=%s replay=%s no-failing-input-found\n", *prop, rp)
		os.Exit(1)
	}
	keys := propKeys(c, *prop)
	if len(keys) == 0 {
		fmt.Printf("BROKEN: no procedure under contract is tagged %s\n", *prop)
		os.Exit(2)
	}
	res := runProcs(c, keys)
	obls, probes, facts, unclaimed := selectObligations(c, *prop, res)
	timeout := 10000
	if *tier == "thorough" {
		timeout = 60000
	}
	dir, _ := os.MkdirTemp("", "govc-"+*prop)
	defer os.RemoveAll(dir)
	all := append(append([]*Obligation{}, obls...), probes...)
	solveAll(c, all, facts, dir, timeout, runtime.NumCPU())
	unshadow(c, obls, facts, dir, timeout)

	known := loadKnown(vd)
	drivers := loadDrivers(vd)
	// replay files of earlier runs of this property are out of date
	os.RemoveAll(filepath.Join(vd, "replays", *prop))
	violations := 0
	var knownMatched []string
	var failed []*Obligation
	exit := 0
	// engine errors
	for _, r := range res {
		if r.err != nil {
			name := r.fi.Name + ":engine"
			content := map[string]interface{}{
				"property": *prop, "obligation": name,
				"error": r.err.Error(), "note": "the procedure left the verified subset or its contract no longer binds; obligations could not be generated",
			}
			found := tryDrivers(vd, *repo, name, drivers, dir, content)
			rp := writeReplay(vd, *prop, name, content)
			fmt.Printf("engine: %v\n", r.err)
			suffix := " no-failing-input-found"
			if found {
				suffix = ""
			}
			fmt.Printf("VIOLATION property=%s replay=%s%s\n", *prop, rp, suffix)
			violations++
			exit = 1
		}
	}
	// vacuity
	// consistency of assumed callee contracts at every call site
	for _, b := range checkConsistency(c, res, dir) {
		fmt.Printf("BROKEN: a callee contract contradicts the state at its call site: %s\n", b)
		exit = 2
	}
	// vacuity: the entry of every procedure and at least one of its exits must be reachable
	exitsOK := map[string]bool{}
	hasExit := map[string]bool{}
	for _, ob := range probes {
		if strings.Contains(ob.Name, ":vacuity.entry") {
			if ob.Status == "unsat" {
				fmt.Printf("BROKEN: vacuous contract (requires/assumes are contradictory): %s\n", ob.Name)
				exit = 2
			}
			continue
		}
		hasExit[ob.Proc] = true
		if ob.Status != "unsat" {
			exitsOK[ob.Proc] = true
		}
	}
	for pr := range hasExit {
		if !exitsOK[pr] {
			fmt.Printf("BROKEN: vacuous contract (no exit of %s is reachable)\n", pr)
			exit = 2
		}
	}
	reported := map[string]bool{}
	for _, ob := range obls {
		if ob.Status == "unsat" {
			continue
		}
		failed = append(failed, ob)
		bn := baseName(ob.Name)
		if reported[bn] {
			continue
		}
		reported[bn] = true
		if kf := matchKnown(known, *prop, bn); kf != nil {
			fmt.Printf("KNOWN-FINDING: property=%s %s: %s\n", *prop, bn, kf.What)
			knownMatched = append(knownMatched, bn)
			continue
		}
		violations++
		exit = 1
		rp, found := replayObligation(c, vd, *repo, *prop, ob, drivers, dir)
		suffix := ""
		if !found {
			suffix = " no-failing-input-found"
		}
		fmt.Printf("failed obligation %s (%s by %s) at %s\n", ob.Name, ob.Status, ob.Solver, ob.Where)
		fmt.Printf("VIOLATION property=%s replay=%s%s\n", *prop, rp, suffix)
	}
	// bounded stand-ins registered for this property (labelled bounded, never counted as proved)
	standins = nil
	for _, sd := range loadStandins(vd) {
		if sd.Property != *prop {
			continue
		}
		fails, cmdline, out := runDriver(*repo, vd, Driver{Pkg: sd.Pkg, File: sd.File, Test: sd.Test}, dir)
		cases := 0
		for _, ln := range strings.Split(out, "\n") {
			if i := strings.Index(ln, "REPLAY-CASES "); i >= 0 {
				cases, _ = strconv.Atoi(strings.TrimSpace(ln[i+len("REPLAY-CASES "):]))
			}
		}
		rec := map[string]interface{}{"name": sd.Name, "bound": sd.Bound, "cases": cases, "failing": len(fails), "reason_not_deductive": sd.Reason, "cmd": cmdline}
		standins = append(standins, rec)
		if len(fails) > 0 || cases == 0 {
			content := map[string]interface{}{"property": *prop, "obligation": "bounded:" + sd.Name, "evidence": "search", "failing_inputs": fails, "driver_cmd": cmdline}
			if cases == 0 && len(fails) == 0 {
				content["evidence"] = "none"
				tail := out
				if len(tail) > 1500 {
					tail = tail[len(tail)-1500:]
				}
				content["driver_output_tail"] = tail
			}
			rp := writeReplay(vd, *prop, "bounded_"+sd.Test, content)
			suffix := ""
			if len(fails) == 0 {
				suffix = " no-failing-input-found"
			}
			fmt.Printf("bounded stand-in %q failed\n", sd.Name)
			fmt.Printf("VIOLATION property=%s replay=%s%s\n", *prop, rp, suffix)
			violations++
			exit = 1
		}
	}
	// thorough tier: the must-fail corpus of this property (own mutants and the stored seeded
	// changes) is run through the same obligations; an entry that is not reported means the
	// check lost its teeth: the check is broken (exit 2), not a violation
	corpusN, corpusMissed := 0, []string(nil)
	if *tier == "thorough" && exit == 0 {
		corpusN, corpusMissed = selftestProperty(*repo, *prop, 4000)
		fmt.Printf("must-fail corpus: %d entries, not reported: %v\n", corpusN, corpusMissed)
		if len(corpusMissed) > 0 {
			fmt.Printf("BROKEN: must-fail corpus entries not reported: %v\n", corpusMissed)
			exit = 2
		}
	}
	mustFail = map[string]interface{}{"entries": corpusN, "not_reported": corpusMissed, "ran": *tier == "thorough"}
	wall := time.Since(t0).Seconds()
	if !*noEvidence {
		writeEvidence(c, vd, *prop, *tier, seed, res, obls, probes, failed, knownMatched, unclaimed, violations, wall, timeout)
	}
	disch := 0
	for _, ob := range obls {
		if ob.Status == "unsat" {
			disch++
		}
	}
	fmt.Printf("%s: %d procedures, %d obligations, %d discharged, %d known findings, %d violations, %.1fs\n",
		*prop, len(keys), len(obls), disch, len(knownMatched), violations, wall)
	os.Exit(exit)
}

func loadKnown(vd string) []KnownFinding {
	data, err := os.ReadFile(filepath.Join(vd, "known_findings.json"))
	if err != nil {
		return nil
	}
	var kf knownFile
	if err := json.Unmarshal(data, &kf); err != nil {
		fmt.Fprintf(os.Stderr, "known_findings.json: %v\n", err)
		return nil
	}
	return kf.Findings
}

func matchKnown(known []KnownFinding, prop, ob string) *KnownFinding {
	for i := range known {
		k := &known[i]
		if k.Status == "open" && k.Property == prop && k.Obligation == ob {
			return k
		}
	}
	return nil
}

func loadDrivers(vd string) []Driver {
	data, err := os.ReadFile(filepath.Join(vd, "replay", "drivers.json"))
	if err != nil {
		return nil
	}
	var ds []Driver
	if err := json.Unmarshal(data, &ds); err != nil {
		fmt.Fprintf(os.Stderr, "drivers.json: %v\n", err)
	}
	return ds
}

var unsafeName = regexp.MustCompile(`[^A-Za-z0-9_.#-]+`)

func writeReplay(vd, prop, ob string, content map[string]interface{}) string {
	dir := filepath.Join(vd, "replays", prop)
	os.MkdirAll(dir, 0o755)
	path := filepath.Join(dir, unsafeName.ReplaceAllString(ob, "_")+".json")
	data, _ := json.MarshalIndent(content, "", "  ")
	os.WriteFile(path, data, 0o644)
	return path
}

// runDriver runs a replay driver against the repository working tree.
// It returns the driver's REPLAY-FAIL lines (failing inputs on the real code).
func runDriver(repo, vd string, d Driver, scratch string) (fails []string, cmdline string, out string) {
	src := filepath.Join(vd, "replay", "drivers", d.File)
	dst := filepath.Join(repo, d.Pkg, "zz_verif_replay_test.go")
	ov := map[string]map[string]string{"Replace": {dst: src}}
	ovf := filepath.Join(scratch, "ov_"+unsafeName.ReplaceAllString(d.Test, "_")+".json")
	data, _ := json.Marshal(ov)
	os.WriteFile(ovf, data, 0o644)
	args := []string{"test", "-v", "-tags", "verif", "-overlay", ovf, "-vet=off", "-count=1", "-timeout", "120s", "-run", "^" + d.Test + "$", "./" + d.Pkg}
	cmd := exec.Command("go", args...)
	cmd.Dir = repo
	cmd.Env = append(os.Environ(), "GOFLAGS=-mod=mod", "GOPROXY=off", "GOSUMDB=off", "GOTOOLCHAIN=local")
	b, _ := cmd.CombinedOutput()
	out = string(b)
	for _, ln := range strings.Split(out, "\n") {
		if i := strings.Index(ln, "REPLAY-FAIL "); i >= 0 {
			fails = append(fails, strings.TrimSpace(ln[i+len("REPLAY-FAIL "):]))
		}
	}
	cmdline = "cd " + repo + " && go " + strings.Join(args, " ") + "   # overlay: " + dst + " <- " + src
	return
}

// replayObligation tries to find a failing input on the real code for a failed obligation.
func replayObligation(c *Ctx, vd, repo, prop string, ob *Obligation, drivers []Driver, scratch string) (string, bool) {
	content := map[string]interface{}{
		"property": prop, "obligation": ob.Name, "kind": ob.Kind, "where": ob.Where,
		"solver_status": ob.Status, "solver": ob.Solver, "goal": ob.Goal.S,
	}
	out := ob.Model
	if len(out) > 8000 {
		out = out[:8000] + "...(truncated)"
	}
	content["solver_output"] = out
	if n, ok := shadowNote[ob]; ok {
		content["note"] = n
	}
	// keep the query next to the replay file
	qdir := filepath.Join(vd, "replays", prop)
	os.MkdirAll(qdir, 0o755)
	qpath := filepath.Join(qdir, unsafeName.ReplaceAllString(ob.Name, "_")+".smt2")
	if data, err := os.ReadFile(ob.Query); err == nil {
		os.WriteFile(qpath, data, 0o644)
		content["query"] = qpath
	}
	found := tryDrivers(vd, repo, ob.Name, drivers, scratch, content)
	return writeReplay(vd, prop, ob.Name, content), found
}

// tryDrivers runs the replay drivers registered for the obligation, in order, until one
// produces a failing execution on the real code.
func tryDrivers(vd, repo, obName string, drivers []Driver, scratch string, content map[string]interface{}) bool {
	found := false
	for _, d := range drivers {
		re, err := regexp.Compile(d.Proc)
		if err != nil || !re.MatchString(obName) {
			continue
		}
		fails, cmdline, dout := runDriver(repo, vd, d, scratch)
		content["driver"] = d
		content["driver_cmd"] = cmdline
		if len(fails) > 0 {
			found = true
			content["evidence"] = "search"
			if len(fails) > 10 {
				fails = fails[:10]
			}
			content["failing_inputs"] = fails
			delete(content, "driver_output_tail")
			break
		}
		// no failing execution from this driver: try the next one registered for the obligation
		if len(dout) > 2000 {
			dout = dout[len(dout)-2000:]
		}
		content["driver_output_tail"] = dout
	}
	if !found {
		content["evidence"] = "none"
		if _, has := content["note"]; !has {
			content["note"] = "no failing execution was produced; the named obligation is not discharged on this tree (it is on the reference tree)"
		}
	}
	return found
}

// ---------------------------------------------------------------------------

var mustFail map[string]interface{}
var standins []map[string]interface{}

// Standin is a bounded check registered in /verif/replay/standins.json.
type Standin struct {
	Property string `json:"property"`
	Name     string `json:"name"`
	Pkg      string `json:"pkg"`
	File     string `json:"file"`
	Test     string `json:"test"`
	Bound    string `json:"bound"`
	Reason   string `json:"reason"`
}

func loadStandins(vd string) []Standin {
	data, err := os.ReadFile(filepath.Join(vd, "replay", "standins.json"))
	if err != nil {
		return nil
	}
	var out []Standin
	json.Unmarshal(data, &out)
	return out
}

func writeEvidence(c *Ctx, vd, prop, tier string, seed int, res []*procResult, obls, probes, failed []*Obligation, knownMatched []string, unclaimed, violations int, wall float64, timeoutMs int) {
	isKnown := map[string]bool{}
	for _, k := range knownMatched {
		isKnown[k] = true
	}
	byBackend := map[string]int{}
	solverSecs := 0.0
	discharged := 0
	claimed := 0
	byKind := map[string]int{}
	var samples []map[string]interface{}
	var slow []map[string]interface{}
	for _, ob := range obls {
		if isKnown[baseName(ob.Name)] {
			continue
		}
		claimed++
		byKind[ob.Kind]++
		solverSecs += ob.Secs
		if ob.Status == "unsat" {
			discharged++
			byBackend[ob.Solver]++
		}
		if len(samples) < 12 && (ob.Kind == "post" || ob.Kind == "inv.preserved" || len(samples) < 4) {
			samples = append(samples, map[string]interface{}{
				"obligation": ob.Name, "kind": ob.Kind, "status": ob.Status, "backend": ob.Solver,
				"secs": round3(ob.Secs), "clause_at": ob.Where, "goal": clip(ob.Goal.S, 300), "hypotheses": len(ob.PC),
			})
		}
		if ob.Secs > 3 {
			slow = append(slow, map[string]interface{}{"obligation": ob.Name, "secs": round3(ob.Secs), "backend": ob.Solver})
		}
	}
	var funcs []string
	var closures int
	for _, r := range res {
		funcs = append(funcs, r.fi.Name)
		if r.fi.Lit != nil {
			closures++
		}
	}
	// contracts relied on at call sites: trusted, or verified (under which properties)
	verifiedHere := map[string]bool{}
	for _, r := range res {
		verifiedHere[r.fi.Key] = true
	}
	var callee []string
	for k, ct := range c.contracts {
		if !ct.Used || (ct.Kind != "func" && ct.Kind != "closure") {
			continue
		}
		tags := map[string]bool{}
		for _, cl := range ct.Clauses {
			for _, t := range cl.Tags {
				tags[t] = true
			}
		}
		var ts []string
		for t := range tags {
			ts = append(ts, t)
		}
		sort.Strings(ts)
		switch {
		case ct.Trusted:
			callee = append(callee, ct.Name+": trusted (assumed)")
		case verifiedHere[k]:
			callee = append(callee, ct.Name+": verified in this run")
		case len(ts) > 0:
			callee = append(callee, ct.Name+": assumed here, verified by the checks of "+strings.Join(ts, ","))
		default:
			callee = append(callee, ct.Name+": assumed (verified by no check)")
		}
	}
	sort.Strings(callee)
	var trusted []string
	var assumptions []string
	for n := range c.notes {
		if strings.HasPrefix(n, "trusted contract: ") {
			trusted = append(trusted, strings.TrimPrefix(n, "trusted contract: "))
		} else {
			assumptions = append(assumptions, n)
		}
	}
	sort.Strings(trusted)
	sort.Strings(assumptions)
	assumptions = append(assumptions,
		"int/uint values are mathematical integers (no overflow modelled)",
		"sequential semantics: each procedure is verified as one atomic step for every pre-state allowed by its requires clauses; goroutine interleavings are not explored",
		fmt.Sprintf("%d safety obligations (index/nil/...) of these procedures are not claimed by this property and were not solved", unclaimed),
	)
	tb := append([]string{"govc VC generator (/verif/govc)", "z3 4.8.12, z3 5.1.0 (z3-new), cvc5 1.0: an obligation counts as discharged when one of them answers unsat", "go/types + golang.org/x/tools/go/packages v0.29.0"}, prefixAll("trusted contract: ", trusted)...)
	vac := 0
	for _, pb := range probes {
		if pb.Status != "unsat" {
			vac++
		}
	}
	var kfs []string
	for _, k := range knownMatched {
		kfs = append(kfs, k)
	}
	cov := map[string]interface{}{
		"obligations":              claimed,
		"discharged":               discharged,
		"checker_cmd":              fmt.Sprintf("bin/govc check -p %s -tier %s   (per obligation: z3-new -t:2000, then race z3-new|cvc5 --incremental|z3 with %d ms)", prop, tier, timeoutMs),
		"trusted_base":             tb,
		"samples":                  samples,
		"functions_under_contract": funcs,
		"closures_under_contract":  closures,
		"obligations_by_kind":      byKind,
		"discharged_by_backend":    byBackend,
		"solver_seconds":           round3(solverSecs),
		"slow_obligations":         slow,
		"vacuity_probes":           len(probes),
		"vacuity_probes_passed":    vac,
		"known_findings_matched":   kfs,
		"must_fail_corpus":         mustFail,
		"callee_contracts_relied_on": callee,
		"bounded_standins":         standinsOrEmpty(),
		"explanation":              "every obligation is generated from the typed AST of /repo's working tree on this run; contracts are the //@ blocks of the verif-tagged files",
	}
	ev := map[string]interface{}{
		"property_id": prop,
		"tier":        tier,
		"seed":        seed,
		"level":       "proof",
		"coverage":    cov,
		"assumptions": assumptions,
		"wall_s":      round3(wall),
		"violations":  violations,
	}
	os.MkdirAll(filepath.Join(vd, "evidence"), 0o755)
	data, _ := json.MarshalIndent(ev, "", " ")
	os.WriteFile(filepath.Join(vd, "evidence", prop+".json"), data, 0o644)
}

func prefixAll(p string, xs []string) []string {
	out := make([]string, len(xs))
	for i, x := range xs {
		out[i] = p + x
	}
	return out
}

func round3(f float64) float64 { return float64(int(f*1000+0.5)) / 1000 }

func clip(s string, n int) string {
	if len(s) > n {
		return s[:n] + "..."
	}
	return s
}

func standinsOrEmpty() []map[string]interface{} {
	if standins == nil {
		return []map[string]interface{}{}
	}
	return standins
}

// unshadow: a call-site assertion, precondition or invariant is assumed once it has been stated.
// If such an obligation, tagged for other properties only, fails on this tree, the obligations of
// the checked property that were discharged further down the same procedure were discharged
// under a fact that does not hold. They are decided again without that fact (every occurrence
// of the failed goal in their path condition is replaced by true, which only weakens it); one
// that is no longer discharged is reported like any other failed obligation, with a note.
func unshadow(c *Ctx, obls []*Obligation, facts map[*Obligation][]*Term, dir string, timeout int) {
	if len(otherTagged) == 0 {
		return
	}
	sub := filepath.Join(dir, "others")
	os.MkdirAll(sub, 0o755)
	solveAll(c, otherTagged, facts, sub, timeout, runtime.NumCPU())
	var redo []*Obligation
	for _, o := range otherTagged {
		if o.Status == "unsat" || len(o.Goal.S) < 3 || o.Goal.S[0] != '(' {
			continue
		}
		for _, q := range obls {
			if q.Proc != o.Proc || q.Status != "unsat" || q.Solver == "syntactic" {
				continue
			}
			hit := false
			pc := make([]*Term, len(q.PC))
			for i, t := range q.PC {
				if strings.Contains(t.S, o.Goal.S) {
					hit = true
					pc[i] = T(strings.ReplaceAll(t.S, o.Goal.S, "true"), t.Sort)
				} else {
					pc[i] = t
				}
			}
			if !hit {
				continue
			}
			q.PC = pc
			shadowNote[q] = "discharged only under the assumption of " + o.Name + " [" + strings.Join(o.Tags, ",") + "], which is not discharged on this tree; decided again without it"
			redo = append(redo, q)
		}
	}
	if len(redo) == 0 {
		return
	}
	seen := map[*Obligation]bool{}
	var uniq []*Obligation
	for _, q := range redo {
		if !seen[q] {
			seen[q] = true
			q.Status, q.Solver = "", ""
			uniq = append(uniq, q)
		}
	}
	sub2 := filepath.Join(dir, "unshadowed")
	os.MkdirAll(sub2, 0o755)
	solveAll(c, uniq, facts, sub2, timeout, runtime.NumCPU())
	for _, q := range uniq {
		if q.Status != "unsat" {
			fmt.Printf("note: %s: %s\n", q.Name, shadowNote[q])
		}
	}
}
