package main

import (
	"fmt"
	"go/ast"
	"go/token"
	"go/types"
	"strings"
)

type jump struct {
	label string
	st    *State
}

// flow is the outcome of executing a statement.
type flow struct {
	norm []*State
	brk  []jump
	cont []jump
	fall []*State
}

func (f *flow) absorb(g flow) {
	f.brk = append(f.brk, g.brk...)
	f.cont = append(f.cont, g.cont...)
}

// frame is an activation: the procedure itself or an inlined callee.
type frame struct {
	fi        *FuncInfo
	info      *types.Info
	pkg       *types.Package
	inline    bool
	resObjs   []*types.Var // synthetic result variables (inline frames)
	named     []*types.Var // named results
	rets      []*State
	deferBase int
	prefix    string
	contract  *Contract
	loopBase  ast.Node
}

func (p *Proc) cur() *frame { return p.frames[len(p.frames)-1] }

func (p *Proc) ec(st *State) *ectx {
	f := p.cur()
	return &ectx{st: st, info: f.info, pkg: f.pkg, old: p.entry, where: ""}
}

func (p *Proc) execBlock(states []*State, list []ast.Stmt) flow {
	var out flow
	cur := states
	for _, s := range list {
		// forward goto: states that jumped to this label from earlier statements of the block
		// (or from inside them) continue here
		if ls, ok := s.(*ast.LabeledStmt); ok {
			want := "goto:" + ls.Label.Name
			var rest []jump
			for _, j := range out.brk {
				if j.label == want {
					cur = append(cur, j.st)
				} else {
					rest = append(rest, j)
				}
			}
			out.brk = rest
			cur = p.merge(cur)
		}
		if len(cur) == 0 {
			// later labels may still be the target of a pending goto
			pending := false
			for _, j := range out.brk {
				if strings.HasPrefix(j.label, "goto:") {
					pending = true
				}
			}
			if !pending {
				break
			}
			continue
		}
		var next []*State
		for _, st := range cur {
			f := p.exec(st, s)
			next = append(next, f.norm...)
			out.absorb(f)
			out.fall = append(out.fall, f.fall...)
		}
		cur = p.merge(next)
		if len(cur) > p.maxStates {
			p.failf(s, "state explosion (%d states)", len(cur))
		}
	}
	out.norm = cur
	return out
}

func (p *Proc) exec(st *State, s ast.Stmt) flow {
	p.steps++
	switch x := s.(type) {
	case *ast.BlockStmt:
		return p.execBlock([]*State{st}, x.List)
	case *ast.ExprStmt:
		p.eval(p.ec(st), x.X)
		if p.dead(st) {
			return flow{}
		}
		return flow{norm: []*State{st}}
	case *ast.AssignStmt:
		p.setAsserts(st, x)
		p.execAssign(st, x)
		return flow{norm: []*State{st}}
	case *ast.IncDecStmt:
		one := &ast.BasicLit{Kind: token.INT, Value: "1"}
		op := token.ADD
		if x.Tok == token.DEC {
			op = token.SUB
		}
		ec := p.ec(st)
		cur := p.eval(ec, x.X)
		v := p.binop(ec, op, cur, p.evalLit(ec, one), x)
		v.T = p.convert(ec, v, cur.Typ)
		p.assignTo(ec, x.X, Val{T: v.T, Typ: cur.Typ})
		return flow{norm: []*State{st}}
	case *ast.DeclStmt:
		p.execDecl(st, x)
		return flow{norm: []*State{st}}
	case *ast.IfStmt:
		return p.execIf(st, x)
	case *ast.ForStmt:
		return p.execFor(st, x, "")
	case *ast.RangeStmt:
		return p.execRange(st, x, "")
	case *ast.SwitchStmt:
		return p.execSwitch(st, x, "")
	case *ast.LabeledStmt:
		switch y := x.Stmt.(type) {
		case *ast.ForStmt:
			return p.execFor(st, y, x.Label.Name)
		case *ast.RangeStmt:
			return p.execRange(st, y, x.Label.Name)
		case *ast.SwitchStmt:
			return p.execSwitch(st, y, x.Label.Name)
		}
		return p.exec(st, x.Stmt)
	case *ast.ReturnStmt:
		p.execReturn(st, x)
		return flow{}
	case *ast.BranchStmt:
		label := ""
		if x.Label != nil {
			label = x.Label.Name
		}
		switch x.Tok {
		case token.BREAK:
			return flow{brk: []jump{{label, st}}}
		case token.CONTINUE:
			return flow{cont: []jump{{label, st}}}
		case token.FALLTHROUGH:
			return flow{fall: []*State{st}}
		case token.GOTO:
			// forward jumps only: the state is picked up by the block that holds the label
			return flow{brk: []jump{{"goto:" + label, st}}}
		}
		p.failf(x, "unsupported branch statement %s", x.Tok)
	case *ast.DeferStmt:
		if !p.isDropped(p.ec(st), x.Call) {
			st.defers = append(st.defers, &deferred{call: x.Call})
		}
		return flow{norm: []*State{st}}
	case *ast.GoStmt:
		p.execGo(st, x)
		return flow{norm: []*State{st}}
	case *ast.EmptyStmt:
		return flow{norm: []*State{st}}
	case *ast.SendStmt:
		ec := p.ec(st)
		p.eval(ec, x.Chan)
		v := p.eval(ec, x.Value)
		p.stmtAsserts(st, x, "send")
		// ghost: number of channel sends and the last value sent (as an interface value)
		cnt := p.heapGet(st, "G:$sendcount", SInt)
		_ = p.heapGet(st, "G:$lastsent", SIface)
		p.heapSet(st, "G:$sendcount", Add(cnt, IntLit(1)))
		if v.T != nil && v.Typ != nil {
			if isIface(v.Typ) {
				p.heapSet(st, "G:$lastsent", v.T)
			} else if v.T.Sort != SSlice || true {
				func() {
					defer func() { recover() }()
					p.heapSet(st, "G:$lastsent", p.box(ec, v))
				}()
			}
		}
		return flow{norm: []*State{st}}
	case *ast.SelectStmt:
		return p.execSelect(st, x)
	}
	p.failf(s, "unsupported statement %T", s)
	return flow{}
}

// dead reports whether the state was killed (panic, never-returning call).
func (p *Proc) dead(st *State) bool {
	return len(st.pc) > 0 && st.pc[len(st.pc)-1] == TFalse
}

func (p *Proc) kill(st *State) { st.pc = append(st.pc, TFalse) }

func (p *Proc) execDecl(st *State, x *ast.DeclStmt) {
	gd, ok := x.Decl.(*ast.GenDecl)
	if !ok || gd.Tok == token.TYPE || gd.Tok == token.CONST {
		return
	}
	ec := p.ec(st)
	for _, sp := range gd.Specs {
		vs := sp.(*ast.ValueSpec)
		if len(vs.Values) == 1 && len(vs.Names) > 1 {
			v := p.eval(ec, vs.Values[0])
			for i, name := range vs.Names {
				p.declVar(ec, name, v.Multi[i])
			}
			continue
		}
		for i, name := range vs.Names {
			obj, _ := ec.info.Defs[name].(*types.Var)
			if obj == nil {
				continue
			}
			if i < len(vs.Values) {
				v := p.eval(ec, vs.Values[i])
				p.declVar(ec, name, Val{T: p.convert(ec, v, obj.Type()), Typ: obj.Type()})
			} else {
				p.declVar(ec, name, Val{T: p.ctx.zeroOf(obj.Type()), Typ: obj.Type()})
			}
		}
	}
}

// declVar binds a newly declared variable; boxed variables get a heap cell.
func (p *Proc) declVar(ec *ectx, name *ast.Ident, v Val) {
	if name.Name == "_" {
		return
	}
	obj, _ := ec.info.Defs[name].(*types.Var)
	if obj == nil {
		// redeclaration in := reuses the existing variable
		if o, ok := ec.info.Uses[name].(*types.Var); ok {
			p.setVar(ec, o, v, name)
			return
		}
		p.failf(name, "cannot resolve declared variable %s", name.Name)
	}
	if p.boxed[obj] {
		addr := p.alloc(ec.st, "box_"+obj.Name())
		ec.st.vars[obj] = addr
		p.storeBoxed(ec, obj, addr, v)
		if isBuilderType(obj.Type()) {
			// a newly declared accumulator is empty (its zero value is ready to use)
			h := p.heapGet(ec.st, "G:sbuf", ArrSort(SInt, SStr))
			ec.st.assume(Eq(StrLen(Sel(h, addr)), IntLit(0)))
		}
		return
	}
	ec.st.vars[obj] = p.convert(ec, v, obj.Type())
}

func (p *Proc) storeBoxed(ec *ectx, obj *types.Var, addr *Term, v Val) {
	p.storeCell(ec, obj.Type(), addr, v)
}

// storeCell writes a value of type t into the heap cell at addr.
func (p *Proc) storeCell(ec *ectx, t types.Type, addr *Term, v Val) {
	val := p.convert(ec, v, t)
	if stt, ok := t.Underlying().(*types.Struct); ok && !opaqueStruct(t) {
		s := p.ctx.sortOf(t)
		for i := 0; i < stt.NumFields(); i++ {
			f := stt.Field(i)
			key := p.fieldHeapKey(t, f)
			h := p.fieldHeap(ec.st, t, f)
			p.heapSet(ec.st, key, Store(h, addr, App(string(s)+"_"+f.Name(), p.ctx.sortOf(f.Type()), val)))
		}
		return
	}
	key := p.ptrHeapKey(t)
	p.heapSet(ec.st, key, Store(p.ptrHeap(ec.st, t), addr, val))
}

func (p *Proc) setVar(ec *ectx, obj *types.Var, v Val, n ast.Node) {
	if p.boxed[obj] {
		addr, ok := ec.st.vars[obj]
		if !ok {
			p.failf(n, "boxed variable %s has no cell", obj.Name())
		}
		p.storeBoxed(ec, obj, addr, v)
		return
	}
	if _, ok := ec.st.vars[obj]; !ok && !(obj.Pkg() != nil && obj.Parent() == obj.Pkg().Scope()) {
		// captured variable or parameter not yet bound
	}
	if obj.Pkg() != nil && obj.Parent() == obj.Pkg().Scope() {
		p.failf(n, "assignment to package-level variable %s", obj.Name())
	}
	ec.st.vars[obj] = p.convert(ec, v, obj.Type())
	if p.capturedByRef[obj] {
		p.ctx.notes["variables captured and mutated by closures are treated per procedure"] = true
	}
}

func (p *Proc) execAssign(st *State, x *ast.AssignStmt) {
	ec := p.ec(st)
	if x.Tok != token.ASSIGN && x.Tok != token.DEFINE {
		// op-assign
		var op token.Token
		switch x.Tok {
		case token.ADD_ASSIGN:
			op = token.ADD
		case token.SUB_ASSIGN:
			op = token.SUB
		case token.MUL_ASSIGN:
			op = token.MUL
		case token.OR_ASSIGN:
			op = token.OR
		case token.AND_ASSIGN:
			op = token.AND
		case token.XOR_ASSIGN:
			op = token.XOR
		case token.AND_NOT_ASSIGN:
			op = token.AND_NOT
		case token.QUO_ASSIGN:
			op = token.QUO
		case token.REM_ASSIGN:
			op = token.REM
		default:
			p.failf(x, "unsupported assignment operator %s", x.Tok)
		}
		cur := p.eval(ec, x.Lhs[0])
		r := p.eval(ec, x.Rhs[0])
		v := p.binop(ec, op, cur, r, x)
		p.assignTo(ec, x.Lhs[0], Val{T: p.convert(ec, v, cur.Typ), Typ: cur.Typ})
		return
	}
	var vals []Val
	if len(x.Rhs) == 1 && len(x.Lhs) > 1 {
		// tuple: call, map comma-ok, type assertion comma-ok, receive comma-ok
		switch r := ast.Unparen(x.Rhs[0]).(type) {
		case *ast.IndexExpr:
			m := p.eval(ec, r.X)
			mt := m.Typ.Underlying().(*types.Map)
			k := p.convert(ec, p.eval(ec, r.Index), mt.Key())
			v, in := p.mapLookup(ec, m, k)
			vals = []Val{v, {T: in, Typ: types.Typ[types.Bool]}}
		case *ast.TypeAssertExpr:
			v, ok := p.evalTypeAssert(ec, r)
			vals = []Val{v, {T: ok, Typ: types.Typ[types.Bool]}}
		case *ast.UnaryExpr:
			v := p.eval(ec, r)
			vals = []Val{v, {T: p.freshConst("recvok", SBool), Typ: types.Typ[types.Bool]}}
		default:
			v := p.eval(ec, x.Rhs[0])
			if len(v.Multi) != len(x.Lhs) {
				p.failf(x, "tuple assignment mismatch (%d values for %d targets)", len(v.Multi), len(x.Lhs))
			}
			vals = v.Multi
		}
	} else {
		for _, r := range x.Rhs {
			vals = append(vals, p.eval(ec, r))
		}
	}
	// x.f = append(x.f, cb) with a pending field
	if len(x.Lhs) == 1 && len(x.Rhs) == 1 {
		if sel, ok := ast.Unparen(x.Lhs[0]).(*ast.SelectorExpr); ok {
			if call, ok := ast.Unparen(x.Rhs[0]).(*ast.CallExpr); ok && len(call.Args) == 2 {
				if id, ok := call.Fun.(*ast.Ident); ok && id.Name == "append" {
					if s := ec.info.Selections[sel]; s != nil {
						if f, ok := s.Obj().(*types.Var); ok {
							owner := s.Recv()
							if e, ok := deref(owner); ok {
								owner = e
							}
							p.pendingStore(ec, owner, f, call.Args[1])
						}
					}
				}
			}
		}
	}
	for i, l := range x.Lhs {
		if id, ok := l.(*ast.Ident); ok && x.Tok == token.DEFINE {
			if id.Name == "_" {
				continue
			}
			if _, isDef := ec.info.Defs[id]; isDef && ec.info.Defs[id] != nil {
				obj := ec.info.Defs[id].(*types.Var)
				v := vals[i]
				if v.IsNil {
					v = Val{T: p.ctx.zeroOf(obj.Type()), Typ: obj.Type()}
				}
				p.declVar(ec, id, Val{T: p.convert(ec, v, obj.Type()), Typ: obj.Type(), Closure: v.Closure})
				if v.Closure != nil {
					p.closureOf[obj] = v.Closure
				}
				continue
			}
		}
		p.assignTo(ec, l, vals[i])
	}
}

// assignTo stores v into the location denoted by lhs.
func (p *Proc) assignTo(ec *ectx, lhs ast.Expr, v Val) {
	switch l := ast.Unparen(lhs).(type) {
	case *ast.Ident:
		if l.Name == "_" {
			return
		}
		obj, _ := ec.info.Uses[l].(*types.Var)
		if obj == nil {
			obj, _ = ec.info.Defs[l].(*types.Var)
		}
		if obj == nil {
			p.failf(l, "assignment to unknown variable %s", l.Name)
		}
		p.setVar(ec, obj, v, l)
		if v.Closure != nil {
			p.closureOf[obj] = v.Closure
		}
	case *ast.SelectorExpr:
		sel := ec.info.Selections[l]
		if sel == nil {
			p.failf(l, "assignment to qualified identifier")
		}
		base := p.eval(ec, l.X)
		idx := sel.Index()
		// walk to the owner of the last field
		cur := base
		for _, i := range idx[:len(idx)-1] {
			cur = p.fieldStep(ec, cur, i, l)
		}
		last := idx[len(idx)-1]
		if elem, isPtr := deref(cur.Typ); isPtr {
			stt := elem.Underlying().(*types.Struct)
			f := stt.Field(last)
			p.nilCheck(ec, cur.T, l)
			if p.ctx.isImmutable(elem, f) {
				p.failf(l, "assignment to immutable field %s.%s", elem, f.Name())
			}
			key := p.fieldHeapKey(elem, f)
			h := p.fieldHeap(ec.st, elem, f)
			p.heapSet(ec.st, key, Store(h, cur.T, p.convert(ec, v, f.Type())))
			return
		}
		// struct value: rebuild and assign to the base location
		if len(idx) != 1 {
			p.failf(l, "nested struct value field assignment unsupported")
		}
		stt := cur.Typ.Underlying().(*types.Struct)
		s := p.ctx.sortOf(cur.Typ)
		args := make([]*Term, stt.NumFields())
		for i := range args {
			f := stt.Field(i)
			if i == last {
				args[i] = p.convert(ec, v, f.Type())
			} else {
				args[i] = App(string(s)+"_"+f.Name(), p.ctx.sortOf(f.Type()), cur.T)
			}
		}
		p.assignTo(ec, l.X, Val{T: App("mk_"+string(s), s, args...), Typ: cur.Typ})
	case *ast.IndexExpr:
		base := p.eval(ec, l.X)
		switch bt := base.Typ.Underlying().(type) {
		case *types.Map:
			k := p.convert(ec, p.eval(ec, l.Index), bt.Key())
			p.mapStore(ec, base, k, p.convert(ec, v, bt.Elem()), l)
		case *types.Slice:
			i := p.convert(ec, p.eval(ec, l.Index), types.Typ[types.Int])
			p.boundsCheck(ec, "index", l, And(Le(IntLit(0), i), Lt(i, SlLen(base.T))))
			key := p.sliceHeapKey(bt.Elem())
			h := p.sliceHeap(ec.st, bt.Elem())
			arr := SlArr(base.T)
			p.heapSet(ec.st, key, Store(h, arr, Store(Sel(h, arr), Add(SlOff(base.T), i), p.convert(ec, v, bt.Elem()))))
		case *types.Array:
			i := p.convert(ec, p.eval(ec, l.Index), types.Typ[types.Int])
			p.boundsCheck(ec, "index", l, And(Le(IntLit(0), i), Lt(i, IntLit(bt.Len()))))
			p.assignTo(ec, l.X, Val{T: Store(base.T, i, p.convert(ec, v, bt.Elem())), Typ: base.Typ})
		default:
			p.failf(l, "unsupported index assignment on %s", base.Typ)
		}
	case *ast.StarExpr:
		ptr := p.eval(ec, l.X)
		elem, _ := deref(ptr.Typ)
		p.nilCheck(ec, ptr.T, l)
		if stt, ok := elem.Underlying().(*types.Struct); ok && !opaqueStruct(elem) {
			s := p.ctx.sortOf(elem)
			val := p.convert(ec, v, elem)
			for i := 0; i < stt.NumFields(); i++ {
				f := stt.Field(i)
				if isSyncType(f.Type()) {
					continue
				}
				key := p.fieldHeapKey(elem, f)
				h := p.fieldHeap(ec.st, elem, f)
				p.heapSet(ec.st, key, Store(h, ptr.T, App(string(s)+"_"+f.Name(), p.ctx.sortOf(f.Type()), val)))
			}
			return
		}
		key := p.ptrHeapKey(elem)
		p.heapSet(ec.st, key, Store(p.ptrHeap(ec.st, elem), ptr.T, p.convert(ec, v, elem)))
	default:
		p.failf(lhs, "unsupported assignment target %T", lhs)
	}
}

func (p *Proc) execIf(st *State, x *ast.IfStmt) flow {
	var out flow
	if x.Init != nil {
		f := p.exec(st, x.Init)
		if len(f.norm) != 1 {
			p.failf(x, "if-init with control flow")
		}
		st = f.norm[0]
	}
	c := p.eval(p.ec(st), x.Cond)
	if p.dead(st) {
		return flow{}
	}
	sThen := st
	sElse := st.clone()
	sThen.assume(c.T)
	sElse.assume(Not(c.T))
	var norms []*State
	if c.T.S != "false" {
		f := p.exec(sThen, x.Body)
		norms = append(norms, f.norm...)
		out.absorb(f)
		out.fall = append(out.fall, f.fall...)
	}
	if c.T.S != "true" {
		if x.Else != nil {
			f := p.exec(sElse, x.Else)
			norms = append(norms, f.norm...)
			out.absorb(f)
			out.fall = append(out.fall, f.fall...)
		} else {
			norms = append(norms, sElse)
		}
	}
	out.norm = p.merge(norms)
	return out
}

func (p *Proc) execSwitch(st *State, x *ast.SwitchStmt, label string) flow {
	var out flow
	if x.Init != nil {
		f := p.exec(st, x.Init)
		st = f.norm[0]
	}
	ec := p.ec(st)
	var tag Val
	hasTag := x.Tag != nil
	if hasTag {
		tag = p.eval(ec, x.Tag)
	}
	clauses := x.Body.List
	conds := make([]*Term, len(clauses))
	defIdx := -1
	var prior []*Term
	for i, cs := range clauses {
		cc := cs.(*ast.CaseClause)
		if cc.List == nil {
			defIdx = i
			continue
		}
		var alts []*Term
		for _, e := range cc.List {
			if hasTag {
				v := p.eval(ec, e)
				alts = append(alts, p.binop(ec, token.EQL, tag, v, e).T)
			} else {
				// evaluated lazily under the negation of earlier cases
				n := len(st.pc)
				for _, pr := range prior {
					st.assume(Not(pr))
				}
				v := p.eval(ec, e)
				extra := append([]*Term(nil), st.pc[n+len(prior):]...)
				st.pc = st.pc[:n]
				g := And(mapTerms(prior, Not)...)
				for _, f := range extra {
					st.assume(Imp(g, f))
				}
				alts = append(alts, v.T)
			}
		}
		conds[i] = And(And(mapTerms(prior, Not)...), Or(alts...))
		prior = append(prior, Or(alts...))
	}
	if defIdx >= 0 {
		conds[defIdx] = And(mapTerms(prior, Not)...)
	}
	var norms []*State
	var pending []*State
	for i, cs := range clauses {
		cc := cs.(*ast.CaseClause)
		s := st.clone()
		s.assume(conds[i])
		entry := append([]*State{s}, pending...)
		pending = nil
		if conds[i].S == "false" && len(entry) == 1 {
			continue
		}
		f := p.execBlock(p.merge(entry), cc.Body)
		norms = append(norms, f.norm...)
		pending = f.fall
		for _, b := range f.brk {
			if b.label == "" || b.label == label {
				norms = append(norms, b.st)
			} else {
				out.brk = append(out.brk, b)
			}
		}
		out.cont = append(out.cont, f.cont...)
	}
	if defIdx < 0 {
		s := st.clone()
		s.assume(And(mapTerms(prior, Not)...))
		norms = append(norms, s)
	}
	out.norm = p.merge(norms)
	return out
}

func mapTerms(ts []*Term, f func(*Term) *Term) []*Term {
	out := make([]*Term, len(ts))
	for i, t := range ts {
		out[i] = f(t)
	}
	return out
}

func (p *Proc) execSelect(st *State, x *ast.SelectStmt) flow {
	var out flow
	var norms []*State
	for _, cs := range x.Body.List {
		cc := cs.(*ast.CommClause)
		s := st.clone()
		if cc.Comm != nil {
			f := p.exec(s, cc.Comm)
			if len(f.norm) != 1 {
				continue
			}
			s = f.norm[0]
		}
		f := p.execBlock([]*State{s}, cc.Body)
		norms = append(norms, f.norm...)
		for _, b := range f.brk {
			if b.label == "" {
				norms = append(norms, b.st)
			} else {
				out.brk = append(out.brk, b)
			}
		}
		out.cont = append(out.cont, f.cont...)
	}
	out.norm = p.merge(norms)
	return out
}

// ---------------------------------------------------------------------------
// Loops

type loopSpec struct {
	ord     int
	assumes []*Clause
	lets    []*Clause
	invs    []*Clause
	cut     bool
	exits   []*Clause
	dec     *Clause
	assigns []*Clause
}

func (p *Proc) loopSpecFor(n ast.Node) loopSpec {
	f := p.cur()
	ord := p.loopOrdinal(f, n)
	ls := loopSpec{ord: ord}
	if f.contract != nil {
		for _, cl := range f.contract.Clauses {
			if cl.Loop != ord {
				continue
			}
			switch cl.Kind {
			case "loop.invariant":
				ls.invs = append(ls.invs, cl)
			case "loop.decreases":
				ls.dec = cl
			case "loop.assigns":
				ls.assigns = append(ls.assigns, cl)
			case "loop.let":
				ls.lets = append(ls.lets, cl)
			case "loop.assume":
				ls.assumes = append(ls.assumes, cl)
			case "loop.cut":
				ls.cut = true
			case "loop.exits":
				ls.exits = append(ls.exits, cl)
			}
		}
	}
	return ls
}

func (p *Proc) specEc(st *State, pos token.Pos) *ectx {
	f := p.cur()
	var scope *types.Scope
	if pk := p.ctx.pkgs[f.pkg.Path()]; pk != nil {
		scope = pk.Types.Scope().Innermost(pos)
	}
	return &ectx{st: st, spec: true, old: p.entry, pkg: f.pkg, scope: scope, pos: pos}
}

func (p *Proc) loopHead(st *State, n ast.Node, body *ast.BlockStmt, extraMod []*types.Var, ls loopSpec, pos token.Pos) (d0 *Term) {
	name := fmt.Sprintf("%sloop%d", p.cur().prefix, ls.ord)
	// 0. ghost lets: values at loop entry
	for _, cl := range ls.lets {
		ec := p.specEc(st, pos)
		ec.where = cl.Where
		v := p.eval(ec, cl.Expr)
		c := p.freshConst("let_"+cl.Param, v.T.Sort)
		st.assume(Eq(c, v.T))
		p.lets[cl.Param] = Val{T: c, Typ: v.Typ}
	}
	// 1. invariants hold on entry
	for i, cl := range ls.invs {
		ec := p.specEc(st, pos)
		ec.where = cl.Where
		g := p.eval(ec, cl.Expr)
		p.oblige(st, "inv.init", fmt.Sprintf("%s.inv[%d].init", name, i+1), cl.Tags, g.T, cl.Where)
	}
	// 2. havoc what the loop modifies
	mod := p.modifiedBy(n)
	for _, v := range extraMod {
		mod.vars[v] = true
	}
	for _, cl := range ls.assigns {
		if cl.Arg == "*" {
			mod.all = true
		}
	}
	// the procedure's frame is an implicit invariant of every loop: proved on entry, assumed
	// for the havocked arrays, proved again at each back edge (loopBack)
	var frameKeys map[string]bool
	allowed, whole, ftags, hasFrame := p.frameSets()
	if hasFrame && !mod.all && !st.hv.hasAll() {
		frameKeys = map[string]bool{}
		for k := range mod.heap {
			frameKeys[k] = true
		}
		name := fmt.Sprintf("%sloop%d", p.cur().prefix, ls.ord)
		for _, fg := range p.frameGoals(st, allowed, whole, frameKeys) {
			p.oblige(st, "frame", fmt.Sprintf("%s.frame[%s].init", name, fg.key), ftags, fg.goal, p.where(n))
		}
	}
	p.havocMod(st, mod, n)
	if frameKeys != nil && !st.hv.hasAll() {
		for _, fg := range p.frameGoals(st, allowed, whole, frameKeys) {
			st.assume(fg.goal)
		}
		p.loopFrame[fmt.Sprintf("%sloop%d", p.cur().prefix, ls.ord)] = frameKeys
	}
	// `loop N cut`: quantified and nonlinear facts gathered before the loop are forgotten
	// (dropping hypotheses is sound); what the loop and the code after it need of them must be
	// stated as invariants. Linear ground facts and the entry facts are kept.
	if ls.cut {
		n0 := len(p.entry.pc)
		kept := append([]*Term(nil), st.pc[:min(n0, len(st.pc))]...)
		for _, t := range st.pc[min(n0, len(st.pc)):] {
			if !strings.Contains(t.S, "(forall ") && !strings.Contains(t.S, "(exists ") && !strings.Contains(t.S, "(* ") {
				kept = append(kept, t)
			}
		}
		st.pc = kept
	}
	// 3. assume invariants
	for _, cl := range ls.invs {
		ec := p.specEc(st, pos)
		ec.where = cl.Where
		st.assume(p.eval(ec, cl.Expr).T)
	}
	if ls.dec != nil {
		ec := p.specEc(st, pos)
		d0 = p.eval(ec, ls.dec.Expr).T
		d0 = p.define(st, "dec0", d0)
		c := p.freshConst("dec0", SInt)
		st.assume(Eq(c, d0))
		d0 = c
	}
	return d0
}

// stmtAsserts checks `assert send#k: expr` clauses: an assertion over the locals in scope at the
// k-th send statement of the procedure body (source order, function literals excluded).
func (p *Proc) stmtAsserts(st *State, x ast.Stmt, kind string) {
	fr := p.cur()
	if fr.contract == nil || fr.inline {
		return
	}
	site := ""
	for _, cl := range fr.contract.Clauses {
		if cl.Kind != "assert" || !strings.HasPrefix(cl.Param, kind+"#") {
			continue
		}
		if site == "" {
			n, found := 0, 0
			ast.Inspect(fr.fi.Body(), func(nd ast.Node) bool {
				if _, ok := nd.(*ast.FuncLit); ok {
					return false
				}
				if s, ok := nd.(*ast.SendStmt); ok {
					n++
					if s == x {
						found = n
					}
				}
				return true
			})
			site = fmt.Sprintf("%s#%d", kind, found)
		}
		if cl.Param != site {
			continue
		}
		cec := p.specEc(st, x.Pos())
		cec.where = cl.Where
		g := p.eval(cec, cl.Expr)
		p.assertFired[cl] = true
		p.oblige(st, "callsite.assert", fmt.Sprintf("%s%s.assert", fr.prefix, site), cl.Tags, g.T, cl.Where)
		st.assume(g.T)
	}
}

// loopKey identifies a loop of the current frame (inlined frames have their own numbering).
func (p *Proc) loopKey(ord int) string {
	return fmt.Sprintf("%s#%d", p.cur().prefix, ord)
}

// loopAssume applies the loop's assume clauses (unproved facts, listed in the evidence) at the
// start of an iteration.
func (p *Proc) loopAssume(st *State, ls loopSpec, pos token.Pos) {
	for _, cl := range ls.assumes {
		ec := p.specEc(st, pos)
		ec.where = cl.Where
		st.assume(p.eval(ec, cl.Expr).T)
		p.ctx.notes["assumed at the start of every iteration of loop "+fmt.Sprint(ls.ord)+" of "+p.fi.Name+": "+cl.Text] = true
	}
}

func (p *Proc) loopBack(st *State, ls loopSpec, d0 *Term, pos token.Pos) {
	name := fmt.Sprintf("%sloop%d", p.cur().prefix, ls.ord)
	for i, cl := range ls.invs {
		ec := p.specEc(st, pos)
		ec.where = cl.Where
		g := p.eval(ec, cl.Expr)
		p.oblige(st, "inv.preserved", fmt.Sprintf("%s.inv[%d].preserved", name, i+1), cl.Tags, g.T, cl.Where)
	}
	if fk := p.loopFrame[name]; fk != nil {
		if allowed, whole, ftags, ok := p.frameSets(); ok {
			if st.hv.hasAll() {
				p.oblige(st, "frame", name+".frame[havoc].preserved", ftags, TFalse, "")
			} else {
				for _, fg := range p.frameGoals(st, allowed, whole, fk) {
					p.oblige(st, "frame", fmt.Sprintf("%s.frame[%s].preserved", name, fg.key), ftags, fg.goal, "")
				}
			}
		}
	}
	if ls.dec != nil {
		ec := p.specEc(st, pos)
		d := p.eval(ec, ls.dec.Expr).T
		p.oblige(st, "decreases", name+".decreases", ls.dec.Tags, And(Le(IntLit(0), d0), Lt(d, d0)), ls.dec.Where)
	}
}

func (p *Proc) execFor(st *State, x *ast.ForStmt, label string) flow {
	var out flow
	if x.Init != nil {
		f := p.exec(st, x.Init)
		st = f.norm[0]
	}
	ls := p.loopSpecFor(x)
	pos := x.Body.Lbrace
	d0 := p.loopHead(st, x, x.Body, nil, ls, pos)
	var exits []*State
	body := st
	if x.Cond != nil {
		c := p.eval(p.ec(st), x.Cond)
		ex := st.clone()
		ex.assume(Not(c.T))
		exits = append(exits, ex)
		body.assume(c.T)
	}
	p.loopAssume(body, ls, pos)
	f := p.exec(body, x.Body)
	backs := f.norm
	for _, j := range f.cont {
		if j.label == "" || j.label == label {
			backs = append(backs, j.st)
		} else {
			out.cont = append(out.cont, j)
		}
	}
	for _, j := range f.brk {
		if j.label == "" || j.label == label {
			exits = append(exits, j.st)
		} else {
			out.brk = append(out.brk, j)
		}
	}
	for _, b := range p.merge(backs) {
		if x.Post != nil {
			pf := p.exec(b, x.Post)
			if len(pf.norm) != 1 {
				continue
			}
			b = pf.norm[0]
		}
		p.loopBack(b, ls, d0, pos)
	}
	p.loopExits(exits, ls, pos)
	out.norm = p.merge(exits)
	return out
}

// loopExits proves the loop's `exits` clauses in every state that leaves the loop (the condition
// turned false, or a break): what must hold whenever the loop is left, and is known afterwards.
func (p *Proc) loopExits(exits []*State, ls loopSpec, pos token.Pos) {
	if len(ls.exits) == 0 {
		return
	}
	name := fmt.Sprintf("%sloop%d", p.cur().prefix, ls.ord)
	for k, ex := range exits {
		if ex == nil {
			continue
		}
		for i, cl := range ls.exits {
			ec := p.specEc(ex, pos)
			ec.where = cl.Where
			g := p.eval(ec, cl.Expr)
			p.oblige(ex, "inv.exit", fmt.Sprintf("%s.exits[%d]@%d", name, i+1, k+1), cl.Tags, g.T, cl.Where)
			ex.assume(g.T)
		}
	}
}

func (p *Proc) execRange(st *State, x *ast.RangeStmt, label string) flow {
	var out flow
	ec := p.ec(st)
	coll := p.eval(ec, x.X)
	ls := p.loopSpecFor(x)
	pos := x.Body.Lbrace
	f := p.cur()
	// hidden index variable, visible to invariants as rangeidx<N> (and rangeidx for convenience)
	idxObj := types.NewVar(token.NoPos, f.pkg, fmt.Sprintf("rangeidx%d", ls.ord), types.Typ[types.Int])
	var keyObj, valObj *types.Var
	bind := func(e ast.Expr) *types.Var {
		if e == nil {
			return nil
		}
		id, ok := e.(*ast.Ident)
		if !ok || id.Name == "_" {
			if !ok {
				p.failf(e, "range target must be an identifier")
			}
			return nil
		}
		if o, ok := ec.info.Defs[id].(*types.Var); ok && o != nil {
			return o
		}
		o, _ := ec.info.Uses[id].(*types.Var)
		return o
	}
	keyObj, valObj = bind(x.Key), bind(x.Value)
	hidden := map[string]Val{}
	switch ct := coll.Typ.Underlying().(type) {
	case *types.Basic, *types.Slice:
		isStr := false
		if _, ok := ct.(*types.Basic); ok {
			if !isString(coll.Typ) {
				// range over int
				return p.execRangeInt(st, x, label, coll, ls, keyObj)
			}
			isStr = true
		}
		// the collection value is evaluated once
		collT := p.define(st, "rangecoll", coll.T)
		st.vars[idxObj] = IntLit(0)
		p.rangeIdx[p.loopKey(ls.ord)] = idxObj
		var extra []*types.Var
		extra = append(extra, idxObj)
		d0 := p.loopHead(st, x, x.Body, extra, ls, pos)
		i := st.vars[idxObj]
		var ln *Term
		if isStr {
			ln = StrLen(collT)
		} else {
			ln = SlLen(collT)
		}
		st.assume(And(Le(IntLit(0), i), Le(i, ln)))
		ex := st.clone()
		ex.assume(Ge(i, ln))
		exits := []*State{ex}
		st.assume(Lt(i, ln))
		var step *Term
		if isStr {
			// trusted utf8 decoding contract
			b := StrAt(collT, i)
			r := p.freshConst("rune", SInt)
			sz := p.freshConst("runesize", SInt)
			st.assume(Imp(Lt(b, IntLit(128)), And(Eq(r, b), Eq(sz, IntLit(1)))))
			st.assume(Imp(Ge(b, IntLit(128)), And(Ge(r, IntLit(128)), Le(r, IntLit(0x10FFFF)), Ge(sz, IntLit(1)), Le(sz, IntLit(4)), Le(Add(i, sz), ln), Imp(Eq(sz, IntLit(1)), Eq(r, IntLit(0xFFFD))))))
			p.ctx.notes["utf8 decoding in range-over-string: ASCII byte b yields (b,1); otherwise rune>=0x80, 1<=size<=4 within the string, size==1 implies U+FFFD (trusted)"] = true
			if keyObj != nil {
				st.vars[keyObj] = i
			}
			if valObj != nil {
				st.vars[valObj] = r
			}
			step = sz
		} else {
			if keyObj != nil {
				st.vars[keyObj] = i
			}
			if valObj != nil {
				et := ct.(*types.Slice).Elem()
				v := Val{T: Sel(Sel(p.sliceHeap(st, et), SlArr(collT)), Add(SlOff(collT), i)), Typ: et}
				v.T = p.define(st, "rangeval", v.T)
				p.wfAssume(st, v)
				st.vars[valObj] = v.T
			}
			step = IntLit(1)
		}
		_ = hidden
		p.loopAssume(st, ls, pos)
		bf := p.exec(st, x.Body)
		backs := bf.norm
		for _, j := range bf.cont {
			if j.label == "" || j.label == label {
				backs = append(backs, j.st)
			} else {
				out.cont = append(out.cont, j)
			}
		}
		for _, j := range bf.brk {
			if j.label == "" || j.label == label {
				exits = append(exits, j.st)
			} else {
				out.brk = append(out.brk, j)
			}
		}
		for _, b := range p.merge(backs) {
			b.vars[idxObj] = Add(i, step)
			p.loopBack(b, ls, d0, pos)
		}
		out.norm = p.merge(exits)
		return out
	case *types.Map:
		return p.execRangeMap(st, x, label, coll, ct, ls, keyObj, valObj)
	case *types.Chan:
		// every iteration receives an arbitrary value; the loop may end after any iteration
		d0 := p.loopHead(st, x, x.Body, nil, ls, pos)
		ex := st.clone()
		exits := []*State{ex}
		if keyObj != nil {
			v := Val{T: p.freshConst("recv", p.ctx.sortOf(ct.Elem())), Typ: ct.Elem()}
			p.wfAssume(st, v)
			st.vars[keyObj] = v.T
		}
		p.loopAssume(st, ls, pos)
		bf := p.exec(st, x.Body)
		backs := bf.norm
		for _, j := range bf.cont {
			if j.label == "" || j.label == label {
				backs = append(backs, j.st)
			} else {
				out.cont = append(out.cont, j)
			}
		}
		for _, j := range bf.brk {
			if j.label == "" || j.label == label {
				exits = append(exits, j.st)
			} else {
				out.brk = append(out.brk, j)
			}
		}
		for _, b := range p.merge(backs) {
			p.loopBack(b, ls, d0, pos)
		}
		out.norm = p.merge(exits)
		return out
	}
	p.failf(x, "unsupported range over %s", coll.Typ)
	return out
}

func (p *Proc) execRangeInt(st *State, x *ast.RangeStmt, label string, n Val, ls loopSpec, keyObj *types.Var) flow {
	p.failf(x, "range over integer unsupported")
	return flow{}
}

// execRangeMap verifies a map range for every iteration order: the loop carries a ghost
// visited set (visible to invariants as visited<N>), each iteration picks an arbitrary
// unvisited key of the current domain.
func (p *Proc) execRangeMap(st *State, x *ast.RangeStmt, label string, m Val, mt *types.Map, ls loopSpec, keyObj, valObj *types.Var) flow {
	var out flow
	pos := x.Body.Lbrace
	f := p.cur()
	_, ks, _ := p.mapKeys(mt)
	visSort := ArrSort(ks, SBool)
	visObj := types.NewVar(token.NoPos, f.pkg, fmt.Sprintf("visited%d", ls.ord), types.NewMap(mt.Key(), types.Typ[types.Bool]))
	p.visited[p.loopKey(ls.ord)] = visObj
	p.visitedSort[visObj] = visSort
	mref := p.define(st, "rangemap", m.T)
	st.vars[visObj] = T(fmt.Sprintf("((as const %s) false)", visSort), visSort)
	// iteration counter, visible to invariants as iters<N>; when the loop does not modify maps of
	// this type, iterations visit distinct keys of an unchanged map: iters <= len(map), with
	// equality when the range is exhausted
	itObj := types.NewVar(token.NoPos, f.pkg, fmt.Sprintf("iters%d", ls.ord), types.Typ[types.Int])
	p.iters[p.loopKey(ls.ord)] = itObj
	st.vars[itObj] = IntLit(0)
	mid, _, _ := p.mapKeys(mt)
	mod := p.modifiedBy(x)
	_, touchesDom := mod.heap["MD:"+mid]
	stable := !mod.all && !touchesDom
	for _, pfx := range mod.pfx {
		if keyMatches("MD:"+mid, pfx) {
			stable = false
		}
	}
	_, _, card0 := p.mapHeaps(st, mt)
	cardEntry := p.define(st, "card0", Sel(card0, mref))
	if stable {
		c := p.freshConst("card0", SInt)
		st.assume(Eq(c, cardEntry))
		cardEntry = c
	}
	d0 := p.loopHead(st, x, x.Body, []*types.Var{visObj, itObj}, ls, pos)
	it := st.vars[itObj]
	if stable {
		st.assume(And(Le(IntLit(0), it), Le(it, cardEntry)))
	} else {
		st.assume(Le(IntLit(0), it))
	}
	vis := st.vars[visObj]
	dom, val, _ := p.mapHeaps(st, mt)
	d := Sel(dom, mref)
	// exit: every key of the current domain has been visited
	ex := st.clone()
	ex.assume(T(fmt.Sprintf("(forall ((k!r %s)) (=> (select %s k!r) (select %s k!r)))", ks, d.S, vis.S), SBool))
	ex.assume(Or(Neq(mref, IntLit(0)), T(fmt.Sprintf("(forall ((k!r %s)) (not (select %s k!r)))", ks, d.S), SBool)))
	if stable {
		ex.assume(Eq(it, cardEntry))
	}
	exits := []*State{ex}
	// iteration: pick an unvisited key
	k := p.freshConst("rangekey", ks)
	if stable {
		st.assume(Lt(it, cardEntry))
	}
	st.vars[itObj] = Add(it, IntLit(1))
	st.assume(Neq(mref, IntLit(0)))
	st.assume(Sel(d, k))
	st.assume(Not(Sel(vis, k)))
	st.vars[visObj] = Store(vis, k, TTrue)
	if keyObj != nil {
		st.vars[keyObj] = k
	}
	if valObj != nil {
		v := Val{T: Sel(Sel(val, mref), k), Typ: mt.Elem()}
		v.T = p.define(st, "rangeval", v.T)
		p.wfAssume(st, v)
		st.vars[valObj] = v.T
	}
	p.loopAssume(st, ls, pos)
	bf := p.exec(st, x.Body)
	backs := bf.norm
	for _, j := range bf.cont {
		if j.label == "" || j.label == label {
			backs = append(backs, j.st)
		} else {
			out.cont = append(out.cont, j)
		}
	}
	for _, j := range bf.brk {
		if j.label == "" || j.label == label {
			exits = append(exits, j.st)
		} else {
			out.brk = append(out.brk, j)
		}
	}
	for _, b := range p.merge(backs) {
		p.loopBack(b, ls, d0, pos)
	}
	out.norm = p.merge(exits)
	return out
}

// setAsserts checks `assert set(LHS)#k: expr` clauses: an assertion over the locals in scope right
// before the k-th assignment statement of the procedure whose (single) left-hand side reads LHS.
func (p *Proc) setAsserts(st *State, x *ast.AssignStmt) {
	fr := p.cur()
	if fr.contract == nil || fr.inline || len(x.Lhs) != 1 {
		return
	}
	lhs := exprText(x.Lhs[0])
	prefix := "set(" + lhs + ")#"
	site := ""
	for _, cl := range fr.contract.Clauses {
		if cl.Kind != "assert" || !strings.HasPrefix(cl.Param, prefix) {
			continue
		}
		if site == "" {
			n, found := 0, 0
			ast.Inspect(fr.fi.Body(), func(nd ast.Node) bool {
				if _, ok := nd.(*ast.FuncLit); ok {
					return false
				}
				if a, ok := nd.(*ast.AssignStmt); ok && len(a.Lhs) == 1 && exprText(a.Lhs[0]) == lhs {
					n++
					if a == x {
						found = n
					}
				}
				return true
			})
			site = fmt.Sprintf("%s%d", prefix, found)
		}
		if cl.Param != site {
			continue
		}
		cec := p.specEc(st, x.Pos())
		cec.where = cl.Where
		g := p.eval(cec, cl.Expr)
		p.assertFired[cl] = true
		p.oblige(st, "callsite.assert", fmt.Sprintf("%s%s.assert", fr.prefix, site), cl.Tags, g.T, cl.Where)
		st.assume(g.T)
	}
}
