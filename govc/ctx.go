package main

import (
	"fmt"
	"go/ast"
	"go/constant"
	"go/token"
	"go/types"
	"hash/fnv"
	"os"
	"path/filepath"
	"regexp"
	"sort"
	"strings"

	"golang.org/x/tools/go/packages"
)

const modPath = "github.com/resgateio/resgate"

// FuncInfo describes a procedure (function declaration or function literal).
type FuncInfo struct {
	Pkg     *packages.Package
	Decl    *ast.FuncDecl
	Lit     *ast.FuncLit
	Parent  *FuncInfo
	Ordinal int
	Name    string // display/contract name with short package: rescache.(*Access).CanCall
	Key     string // contract key: pkgpath + "." + "(*Access).CanCall"
	Obj     *types.Func
	File    *ast.File
	Lits    []*ast.FuncLit // function literals in source order (for decls)
}

func (fi *FuncInfo) Body() *ast.BlockStmt {
	if fi.Decl != nil {
		return fi.Decl.Body
	}
	return fi.Lit.Body
}
func (fi *FuncInfo) FuncType() *ast.FuncType {
	if fi.Decl != nil {
		return fi.Decl.Type
	}
	return fi.Lit.Type
}

// Ctx holds everything loaded once per run.
type Ctx struct {
	fset      *token.FileSet
	pkgs      map[string]*packages.Package
	allPkgs   map[string]*types.Package // incl. dependencies, by path
	funcs     map[string]*FuncInfo      // by Key
	funcByObj map[*types.Func]*FuncInfo
	contracts map[string]*Contract // by Key
	libs      map[string]*Contract // by qualified name "strings.IndexByte"
	dirs      *Directives
	specFiles map[string]*ast.File // pkgpath -> contract file
	repoDir   string

	gdecls           []string // global declarations (datatypes, functions, literals)
	gax              []Axiom
	ptrGlobals       []string
	globalFieldFacts []globalFieldFact
	byteGlobals      []byteGlobal
	declared         map[string]bool
	typeTags         map[string]int
	structDT         map[string]bool
	specFuncs        map[string]*specFuncInfo
	litNames         map[string]string
	immutOK          map[string]string // immutable field -> "" if check passed, else violation text
	notes            map[string]bool   // assumptions actually used
	lemmas           []*Contract
	lemmaObls        []*Obligation
	lemmaDecl        []string
}

var qualIfaceRe = regexp.MustCompile(`^([a-z][A-Za-z0-9_]*)\.([A-Z][A-Za-z0-9_]*)\.([A-Za-z0-9_]+)$`)

// Axiom is a global assertion, included in a query only when its symbol occurs.
type Axiom struct {
	Sym   string
	Text  string
	Lemma int // 0: ordinary axiom; n>0: the n-th lemma (usable only by later lemmas and by procedures)
}

func (c *Ctx) addAxiom(sym, text string) { c.gax = append(c.gax, Axiom{Sym: sym, Text: text}) }

type specFuncInfo struct {
	name    string
	sort    Sort
	args    []Sort
	defined bool
}

func shortPkg(path string) string {
	if i := strings.LastIndex(path, "/"); i >= 0 {
		return path[i+1:]
	}
	return path
}

func loadCtx(repoDir string, overlay map[string][]byte) (*Ctx, error) {
	cfg := &packages.Config{
		Mode: packages.NeedName | packages.NeedSyntax | packages.NeedTypes | packages.NeedTypesInfo |
			packages.NeedFiles | packages.NeedImports | packages.NeedDeps,
		Dir:        repoDir,
		BuildFlags: []string{"-tags=verif"},
		Env:        append(os.Environ(), "GOFLAGS=-mod=mod", "GOPROXY=off", "GOSUMDB=off", "GOTOOLCHAIN=local"),
		Overlay:    overlay,
	}
	pkgs, err := packages.Load(cfg, "./server/...", "./nats")
	if err != nil {
		return nil, err
	}
	c := &Ctx{
		pkgs: map[string]*packages.Package{}, allPkgs: map[string]*types.Package{},
		funcs: map[string]*FuncInfo{}, funcByObj: map[*types.Func]*FuncInfo{},
		contracts: map[string]*Contract{}, libs: map[string]*Contract{},
		dirs: &Directives{Immutable: map[string]bool{}, Devirt: map[string]string{}, Drop: map[string]bool{},
			GhostVars: map[string]string{}, GhostFields: map[string]string{}, Defines: map[string]*Define{}, Pending: map[string]bool{}},
		specFiles: map[string]*ast.File{}, repoDir: repoDir,
		declared: map[string]bool{}, typeTags: map[string]int{}, structDT: map[string]bool{},
		specFuncs: map[string]*specFuncInfo{}, litNames: map[string]string{}, immutOK: map[string]string{},
		notes: map[string]bool{},
	}
	var errs []string
	for _, p := range pkgs {
		for _, e := range p.Errors {
			errs = append(errs, e.Error())
		}
		c.pkgs[p.PkgPath] = p
		c.fset = p.Fset
	}
	if len(errs) > 0 {
		return nil, fmt.Errorf("load errors:\n%s", strings.Join(errs, "\n"))
	}
	packages.Visit(pkgs, nil, func(p *packages.Package) {
		if p.Types != nil {
			c.allPkgs[p.PkgPath] = p.Types
		}
	})
	// index functions
	for _, p := range pkgs {
		for _, f := range p.Syntax {
			fname := c.fset.Position(f.Pos()).Filename
			isSpec := strings.HasPrefix(filepath.Base(fname), "verif_")
			if isSpec {
				c.specFiles[p.PkgPath] = f
			}
			for _, d := range f.Decls {
				fd, ok := d.(*ast.FuncDecl)
				if !ok {
					continue
				}
				obj, _ := p.TypesInfo.Defs[fd.Name].(*types.Func)
				local := funcLocalName(fd)
				fi := &FuncInfo{Pkg: p, Decl: fd, Name: shortPkg(p.PkgPath) + "." + local, Key: p.PkgPath + "." + local, Obj: obj, File: f}
				c.funcs[fi.Key] = fi
				if obj != nil {
					c.funcByObj[obj] = fi
				}
				if fd.Body != nil {
					indexLits(c, fi)
				}
			}
		}
	}
	return c, nil
}

func indexLits(c *Ctx, fi *FuncInfo) {
	// function literals in source (pre-)order, all nesting levels, numbered per declaration
	n := 0
	var walk func(parent *FuncInfo, body ast.Node)
	walk = func(parent *FuncInfo, body ast.Node) {
		ast.Inspect(body, func(nd ast.Node) bool {
			if lit, ok := nd.(*ast.FuncLit); ok {
				n++
				top := parent
				for top.Parent != nil {
					top = top.Parent
				}
				cf := &FuncInfo{Pkg: fi.Pkg, Lit: lit, Parent: parent, Ordinal: n, File: fi.File,
					Name: fmt.Sprintf("%s#%d", top.Name, n), Key: fmt.Sprintf("%s#%d", top.Key, n)}
				c.funcs[cf.Key] = cf
				top.Lits = append(top.Lits, lit)
				walk(cf, lit.Body)
				return false
			}
			return true
		})
	}
	walk(fi, fi.Decl.Body)
}

func funcLocalName(fd *ast.FuncDecl) string {
	if fd.Recv == nil || len(fd.Recv.List) == 0 {
		return fd.Name.Name
	}
	t := fd.Recv.List[0].Type
	switch x := t.(type) {
	case *ast.StarExpr:
		if id, ok := x.X.(*ast.Ident); ok {
			return "(*" + id.Name + ")." + fd.Name.Name
		}
	case *ast.Ident:
		return x.Name + "." + fd.Name.Name
	}
	return fd.Name.Name
}

// funcKeyOf returns the contract key of a types.Func.
func funcKeyOf(f *types.Func) string {
	sig := f.Type().(*types.Signature)
	pkg := ""
	if f.Pkg() != nil {
		pkg = f.Pkg().Path()
	}
	if sig.Recv() == nil {
		return pkg + "." + f.Name()
	}
	rt := sig.Recv().Type()
	star := ""
	if pt, ok := rt.(*types.Pointer); ok {
		rt = pt.Elem()
		star = "*"
	}
	name := "?"
	if nt, ok := rt.(*types.Named); ok {
		name = nt.Obj().Name()
		if nt.Obj().Pkg() != nil {
			pkg = nt.Obj().Pkg().Path()
		}
	}
	if _, isIface := rt.Underlying().(*types.Interface); isIface {
		return pkg + "." + name + "." + f.Name()
	}
	if star != "" {
		return pkg + ".(*" + name + ")." + f.Name()
	}
	return pkg + "." + name + "." + f.Name()
}

// loadContracts reads //@ blocks of the verif_ files and the lib spec files.
func (c *Ctx) loadContracts(libDir string) error {
	for path, f := range c.specFiles {
		var lines, where []string
		for _, cg := range f.Comments {
			for _, cm := range cg.List {
				if !strings.HasPrefix(cm.Text, "//@") {
					continue
				}
				pos := c.fset.Position(cm.Pos())
				lines = append(lines, strings.TrimPrefix(cm.Text, "//@"))
				where = append(where, fmt.Sprintf("%s:%d", filepath.Base(filepath.Dir(pos.Filename))+"/"+filepath.Base(pos.Filename), pos.Line))
			}
		}
		cs, err := parseContractLines(lines, where, path, f, c.dirs)
		if err != nil {
			return err
		}
		for _, ct := range cs {
			key := path + "." + ct.Name
			// pkg.Iface.Method: a contract for an interface method of an imported package
			if m := qualIfaceRe.FindStringSubmatch(ct.Name); m != nil {
				for _, imp := range f.Imports {
					ip := strings.Trim(imp.Path.Value, `"`)
					name := shortPkg(ip)
					if imp.Name != nil {
						name = imp.Name.Name
					}
					if name == m[1] {
						key = ip + "." + m[2] + "." + m[3]
						ct.PkgPath = path
					}
				}
			}
			if ct.Kind == "invariant" {
				key = "inv:" + key
			}
			if ct.Kind == "lemma" {
				key = "lemma:" + key
				c.lemmas = append(c.lemmas, ct)
			}
			if _, dup := c.contracts[key]; dup {
				return fmt.Errorf("%s: duplicate contract for %s", ct.Where, ct.Name)
			}
			c.contracts[key] = ct
		}
	}
	if libDir != "" {
		files, _ := filepath.Glob(filepath.Join(libDir, "*.spec"))
		sort.Strings(files)
		for _, lf := range files {
			cs, err := readSpecFile(lf, c.dirs)
			if err != nil {
				return err
			}
			for _, ct := range cs {
				if ct.Kind == "lib" {
					c.libs[ct.Name] = ct
				}
			}
		}
	}
	// every func/closure contract must bind to a procedure
	for key, ct := range c.contracts {
		if ct.Kind == "func" || ct.Kind == "closure" {
			if _, ok := c.funcs[key]; !ok {
				// may be an interface method contract
				if !c.isIfaceMethodKey(key) {
					return fmt.Errorf("%s: contract-unbound: no function %s", ct.Where, ct.Name)
				}
			}
		}
	}
	return nil
}

func (c *Ctx) isIfaceMethodKey(key string) bool {
	// pkgpath.Iface.Method
	i := strings.LastIndex(key, ".")
	if i < 0 {
		return false
	}
	j := strings.LastIndex(key[:i], ".")
	if j < 0 {
		return false
	}
	pkgPath, tname, mname := key[:j], key[j+1:i], key[i+1:]
	tp := c.allPkgs[pkgPath]
	if tp == nil {
		return false
	}
	obj := tp.Scope().Lookup(tname)
	if obj == nil {
		return false
	}
	it, ok := obj.Type().Underlying().(*types.Interface)
	if !ok {
		return false
	}
	for i := 0; i < it.NumMethods(); i++ {
		if it.Method(i).Name() == mname {
			return true
		}
	}
	return false
}

// ---------------------------------------------------------------------------
// Go types -> SMT sorts

func (c *Ctx) declare(key, decl string) {
	if c.declared[key] {
		return
	}
	c.declared[key] = true
	c.gdecls = append(c.gdecls, decl)
}

func typeName(t types.Type) string {
	return types.TypeString(t, func(p *types.Package) string { return p.Path() })
}

func isFlagByte(t types.Type) bool {
	b, ok := t.(*types.Basic)
	return ok && b.Kind() == types.Uint8 && b.Name() == "uint8"
}

func (c *Ctx) sortOf(t types.Type) Sort {
	switch x := t.(type) {
	case *types.Basic:
		switch {
		case x.Kind() == types.UntypedNil:
			return SInt
		case x.Info()&types.IsBoolean != 0:
			return SBool
		case x.Info()&types.IsString != 0:
			return SStr
		case isFlagByte(x):
			return SBV8
		default:
			return SInt
		}
	case *types.Named:
		if _, ok := x.Underlying().(*types.Struct); ok {
			return c.structSort(x)
		}
		return c.sortOf(x.Underlying())
	case *types.Alias:
		return c.sortOf(types.Unalias(x))
	case *types.Pointer, *types.Map, *types.Chan, *types.Signature:
		return SInt
	case *types.Slice:
		return SSlice
	case *types.Array:
		return ArrSort(SInt, c.sortOf(x.Elem()))
	case *types.Interface:
		return SIface
	case *types.Struct:
		return c.structSort(x)
	case *types.Tuple:
		return SInt
	case *types.TypeParam:
		return SInt
	}
	panic(fmt.Sprintf("sortOf: unsupported type %T %s", t, t))
}

func (c *Ctx) structName(t types.Type) string {
	if nt, ok := t.(*types.Named); ok {
		p := ""
		if nt.Obj().Pkg() != nil {
			p = shortPkg(nt.Obj().Pkg().Path()) + "_"
			// a type declared inside a function: its objects never escape to callers
			if nt.Obj().Parent() != nil && nt.Obj().Parent() != nt.Obj().Pkg().Scope() {
				p += "fnlocal_"
			}
		}
		return "S_" + p + nt.Obj().Name()
	}
	return "S_anon_" + sanitize(typeName(t))
}

// isBuilderType reports the library text accumulators modelled by the ghost map sbuf.
func isBuilderType(t types.Type) bool {
	n := typeName(t)
	return n == "strings.Builder" || n == "bytes.Buffer"
}

// opaqueStruct reports struct types that are never modelled field by field.
func opaqueStruct(t types.Type) bool {
	nt, ok := t.(*types.Named)
	if !ok || nt.Obj().Pkg() == nil {
		return false
	}
	if _, isStruct := nt.Underlying().(*types.Struct); !isStruct {
		return false
	}
	p := nt.Obj().Pkg().Path()
	return !strings.HasPrefix(p, modPath)
}

func (c *Ctx) structSort(t types.Type) Sort {
	name := c.structName(t)
	if c.structDT[name] {
		return Sort(name)
	}
	c.structDT[name] = true
	st := t.Underlying().(*types.Struct)
	if opaqueStruct(t) {
		c.declare("sort:"+name, fmt.Sprintf("(declare-sort %s 0)", name))
		return Sort(name)
	}
	var b strings.Builder
	fmt.Fprintf(&b, "(declare-datatypes ((%s 0)) (((mk_%s", name, name)
	for i := 0; i < st.NumFields(); i++ {
		f := st.Field(i)
		fmt.Fprintf(&b, " (%s_%s %s)", name, f.Name(), c.sortOf(f.Type()))
	}
	b.WriteString("))))")
	c.declare("sort:"+name, b.String())
	return Sort(name)
}

func (c *Ctx) typeTag(t types.Type) int {
	n := typeName(t)
	if v, ok := c.typeTags[n]; ok {
		return v
	}
	// content-derived tag (stable across runs and selections)
	h := fnv.New32a()
	h.Write([]byte(n))
	v := int(h.Sum32()&0x3fffffff) + 1
	for _, other := range c.typeTags {
		if other == v {
			v++
		}
	}
	c.typeTags[n] = v
	return v
}

// zeroOf returns the zero value of a Go type.
func (c *Ctx) zeroOf(t types.Type) *Term {
	s := c.sortOf(t)
	switch s {
	case SInt:
		return IntLit(0)
	case SBool:
		return TFalse
	case SStr:
		return c.strLit("")
	case SSlice:
		return NilSlice
	case SIface:
		return NilIface
	case SBV8:
		return BVLit(0)
	}
	switch x := t.Underlying().(type) {
	case *types.Struct:
		if opaqueStruct(t) {
			name := "zero_" + string(s)
			c.declare("zero:"+string(s), fmt.Sprintf("(declare-fun %s () %s)", name, s))
			return T(name, s)
		}
		args := make([]*Term, x.NumFields())
		for i := range args {
			args[i] = c.zeroOf(x.Field(i).Type())
		}
		return App("mk_"+string(s), s, args...)
	case *types.Array:
		return T(fmt.Sprintf("((as const %s) %s)", s, c.zeroOf(x.Elem()).S), s)
	}
	panic("zeroOf: " + t.String())
}

// strLit declares a string literal constant with its length and bytes.
func (c *Ctx) strLit(v string) *Term {
	if n, ok := c.litNames[v]; ok {
		return T(n, SStr)
	}
	// content-derived name: the same literal has the same name in every run and selection
	h := fnv.New32a()
	h.Write([]byte(v))
	san := sanitize(v)
	if len(san) > 24 {
		san = san[:24]
	}
	name := fmt.Sprintf("lit_%08x_%s", h.Sum32(), san)
	c.litNames[v] = name
	c.gdecls = append(c.gdecls, fmt.Sprintf("(declare-fun %s () Str)", name))
	var b strings.Builder
	fmt.Fprintf(&b, "(assert (= (slen %s) %d))", name, len(v))
	for i := 0; i < len(v); i++ {
		fmt.Fprintf(&b, "\n(assert (= (sat %s %d) %d))", name, i, v[i])
	}
	c.addAxiom(name, b.String())
	return T(name, SStr)
}

// strEqLit renders s == "lit" pointwise.
func (c *Ctx) strEqLit(s *Term, v string) *Term {
	parts := []*Term{Eq(StrLen(s), IntLit(int64(len(v))))}
	for i := 0; i < len(v); i++ {
		parts = append(parts, Eq(StrAt(s, IntLit(int64(i))), IntLit(int64(v[i]))))
	}
	return And(parts...)
}

func constToTerm(c *Ctx, cv constant.Value, t types.Type) *Term {
	s := c.sortOf(t)
	switch cv.Kind() {
	case constant.Bool:
		return BoolLit(constant.BoolVal(cv))
	case constant.String:
		return c.strLit(constant.StringVal(cv))
	case constant.Int:
		n, _ := constant.Int64Val(cv)
		if s == SBV8 {
			return BVLit(n)
		}
		return IntLit(n)
	case constant.Float:
		f, _ := constant.Float64Val(cv)
		return IntLit(int64(f))
	}
	panic("constToTerm: unsupported constant " + cv.String())
}

// checkImmutables verifies the `immutable` directives: no assignment to such a field exists in
// the loaded packages outside composite literals and constructor-style functions (init*/New*/new*).
func (c *Ctx) checkImmutables() error {
	var bad []string
	for _, p := range c.pkgs {
		for _, f := range p.Syntax {
			for _, d := range f.Decls {
				fd, ok := d.(*ast.FuncDecl)
				if !ok || fd.Body == nil {
					continue
				}
				ctor := strings.HasPrefix(fd.Name.Name, "init") || strings.HasPrefix(fd.Name.Name, "New") || strings.HasPrefix(fd.Name.Name, "new")
				check := func(e ast.Expr) {
					sel, ok := ast.Unparen(e).(*ast.SelectorExpr)
					if !ok {
						return
					}
					s := p.TypesInfo.Selections[sel]
					if s == nil {
						return
					}
					fv, ok := s.Obj().(*types.Var)
					if !ok || !fv.IsField() {
						return
					}
					// owner: the struct type that declares the field
					recv := s.Recv()
					idx := s.Index()
					t := recv
					for _, i := range idx[:len(idx)-1] {
						if e, ok := deref(t); ok {
							t = e
						}
						t = t.Underlying().(*types.Struct).Field(i).Type()
					}
					if e, ok := deref(t); ok {
						t = e
					}
					if c.isImmutable(t, fv) && !ctor {
						pos := c.fset.Position(sel.Pos())
						bad = append(bad, fmt.Sprintf("%s:%d: assignment to immutable field %s.%s", shortFile(pos.Filename), pos.Line, t, fv.Name()))
					}
				}
				ast.Inspect(fd.Body, func(n ast.Node) bool {
					switch x := n.(type) {
					case *ast.AssignStmt:
						for _, l := range x.Lhs {
							check(l)
						}
					case *ast.IncDecStmt:
						check(x.X)
					case *ast.UnaryExpr:
						if x.Op == token.AND {
							check(x.X)
						}
					}
					return true
				})
			}
		}
	}
	if len(bad) > 0 {
		return fmt.Errorf("immutable directive violated:\n%s", strings.Join(bad, "\n"))
	}
	c.notes["fields declared immutable are assigned only in composite literals and constructor-style functions (init*/New*/new*): checked by scanning every assignment in the loaded packages"] = true
	return nil
}
