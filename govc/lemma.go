package main

import (
	"fmt"
	"go/types"
	"sort"
	"strings"
)

// prepareLemmas turns every lemma into (a) a proof obligation by well-founded induction on
// its decreases measure and (b) a quantified axiom usable by later lemmas and by procedures.
func (c *Ctx) prepareLemmas() error {
	sort.SliceStable(c.lemmas, func(i, j int) bool { return c.lemmas[i].Where < c.lemmas[j].Where && c.lemmas[i].PkgPath == c.lemmas[j].PkgPath })
	for idx, lm := range c.lemmas {
		if err := c.prepareLemma(idx+1, lm); err != nil {
			return err
		}
	}
	return nil
}

func (c *Ctx) prepareLemma(idx int, lm *Contract) (err error) {
	defer func() {
		if r := recover(); r != nil {
			if ve, ok := r.(verr); ok {
				err = fmt.Errorf("lemma %s: %s", lm.Name, ve.msg)
				return
			}
			panic(r)
		}
	}()
	pk := c.pkgs[lm.PkgPath]
	fi := &FuncInfo{Pkg: pk, Name: "lemma." + lm.Name, Key: "lemma:" + lm.PkgPath + "." + lm.Name}
	p := &Proc{ctx: c, fi: fi, heapEntry: map[string]*Term{}, nameCount: map[string]int{}, cbParams: map[string]*types.Var{}, lets: map[string]Val{}}
	p.frames = []*frame{{fi: fi, info: pk.TypesInfo, pkg: pk.Types}}
	st := newState()
	mkEc := func() *ectx {
		ec := &ectx{st: st, spec: true, pkg: pk.Types, where: lm.Where}
		if sf := c.specFiles[lm.PkgPath]; sf != nil {
			ec.scope = pk.TypesInfo.Scopes[sf]
		}
		return ec
	}
	// parameter types
	var ptypes []types.Type
	for _, te := range lm.PTypes {
		t := p.resolveType(mkEc(), te)
		if t == nil {
			return fmt.Errorf("lemma %s: unknown parameter type", lm.Name)
		}
		ptypes = append(ptypes, t)
	}
	evalWith := func(bind map[string]Val) (req, ens, dec *Term, trig []string) {
		st.bound = bind
		var reqs, enss []*Term
		for _, cl := range lm.Clauses {
			ec := mkEc()
			ec.where = cl.Where
			switch cl.Kind {
			case "requires":
				reqs = append(reqs, p.eval(ec, cl.Expr).T)
			case "ensures":
				enss = append(enss, p.eval(ec, cl.Expr).T)
			case "decreases":
				dec = p.eval(ec, cl.Expr).T
			case "trigger":
				trig = append(trig, p.eval(ec, cl.Expr).T.S)
			}
		}
		st.bound = nil
		return And(reqs...), And(enss...), dec, trig
	}
	// fixed instance
	fixed := map[string]Val{}
	for i, n := range lm.Params {
		fixed[n] = Val{T: p.freshConst("l_"+n, c.sortOf(ptypes[i])), Typ: ptypes[i]}
	}
	req, ens, dec, _ := evalWith(fixed)
	// quantified instance
	qv := map[string]Val{}
	var binders []string
	for i, n := range lm.Params {
		vn := fmt.Sprintf("%s!l", n)
		s := c.sortOf(ptypes[i])
		binders = append(binders, fmt.Sprintf("(%s %s)", vn, s))
		qv[n] = Val{T: T(vn, s), Typ: ptypes[i]}
	}
	qreq, qens, qdec, trig := evalWith(qv)
	if len(st.pc) > 0 {
		return fmt.Errorf("lemma %s: clauses produce side facts", lm.Name)
	}
	pat := ""
	if len(trig) > 0 {
		pat = " :pattern (" + strings.Join(trig, " ") + ")"
	}
	st.assume(req)
	if dec != nil {
		ih := fmt.Sprintf("(forall (%s) (!%s (=> (and %s (<= 0 %s) (< %s %s)) %s)%s))", strings.Join(binders, " "), "", qreq.S, qdec.S, qdec.S, dec.S, qens.S, pat)
		if pat == "" {
			ih = fmt.Sprintf("(forall (%s) (=> (and %s (<= 0 %s) (< %s %s)) %s))", strings.Join(binders, " "), qreq.S, qdec.S, qdec.S, dec.S, qens.S)
		} else {
			ih = fmt.Sprintf("(forall (%s) (! (=> (and %s (<= 0 %s) (< %s %s)) %s)%s))", strings.Join(binders, " "), qreq.S, qdec.S, qdec.S, dec.S, qens.S, pat)
		}
		st.assume(T(ih, SBool))
		st.assume(Le(IntLit(0), dec))
	}
	var tags []string
	for _, cl := range lm.Clauses {
		tags = append(tags, cl.Tags...)
	}
	ob := &Obligation{Name: "lemma." + lm.Name, Kind: "lemma", Tags: tags, Proc: fi.Name, Where: lm.Where,
		PC: append([]*Term(nil), st.pc...), Goal: ens, LemmaIdx: idx}
	c.lemmaDecl = append([]string(nil), p.decls...)
	decls := append([]string(nil), p.decls...)
	ob.Decls = &decls
	c.lemmaObls = append(c.lemmaObls, ob)
	// axiom form
	sym := ""
	if len(trig) > 0 {
		// first function symbol of the trigger
		t := strings.TrimLeft(trig[0], "(")
		if i := strings.IndexAny(t, " )"); i > 0 {
			sym = t[:i]
		}
	}
	var ax string
	if pat != "" {
		ax = fmt.Sprintf("(assert (forall (%s) (! (=> %s %s)%s)))", strings.Join(binders, " "), qreq.S, qens.S, pat)
	} else {
		ax = fmt.Sprintf("(assert (forall (%s) (=> %s %s)))", strings.Join(binders, " "), qreq.S, qens.S)
	}
	c.gax = append(c.gax, Axiom{Sym: sym, Text: ax, Lemma: idx})
	return nil
}
