package main

import (
	"runtime"
	"bytes"
	"context"
	"fmt"
	"os"
	"os/exec"
	"path/filepath"
	"regexp"
	"sort"
	"strings"
	"sync"
	"time"
)

// splitAnd splits a term text at top-level conjunctions, recursively.
func splitAnd(t string) []string {
	if !strings.HasPrefix(t, "(and ") || !strings.HasSuffix(t, ")") {
		return []string{t}
	}
	inner := t[5 : len(t)-1]
	var out []string
	depth, start := 0, 0
	inBar := false
	for i := 0; i < len(inner); i++ {
		switch ch := inner[i]; {
		case ch == '|':
			inBar = !inBar
		case inBar:
		case ch == '(':
			depth++
		case ch == ')':
			depth--
			if depth < 0 {
				return []string{t} // "(and a) (b" cannot happen for a well-formed term; be safe
			}
		case ch == ' ' && depth == 0:
			if i > start {
				out = append(out, splitAnd(inner[start:i])...)
			}
			start = i + 1
		}
	}
	if start < len(inner) {
		out = append(out, splitAnd(inner[start:])...)
	}
	return out
}

// Query renders the SMT-LIB text of an obligation.
func (c *Ctx) Query(ob *Obligation, entryFacts []*Term) string {
	var b strings.Builder
	b.WriteString(prelude)
	var body strings.Builder
	for _, d := range *ob.Decls {
		body.WriteString(d)
		body.WriteByte('\n')
	}
	// facts are emitted as separate top-level conjuncts, once each: smaller e-matching units
	// make the solvers markedly more stable than one large conjunction
	seen := map[string]bool{}
	emit := func(t string) {
		for _, c := range splitAnd(t) {
			if c == "true" || seen[c] {
				continue
			}
			seen[c] = true
			fmt.Fprintf(&body, "(assert %s)\n", c)
		}
	}
	for _, f := range entryFacts {
		emit(f.S)
	}
	for _, t := range ob.PC {
		emit(t.S)
	}
	fmt.Fprintf(&body, "(assert (not %s))\n", ob.Goal.S)
	text := body.String()
	// axioms by need (transitively); global declarations by need, too, so that a query does
	// not depend on which other procedures were processed in the same run
	need := text
	included := make([]bool, len(c.gax))
	for changed := true; changed; {
		changed = false
		for i, a := range c.gax {
			if included[i] {
				continue
			}
			if a.Lemma > 0 && ob.LemmaIdx > 0 && a.Lemma >= ob.LemmaIdx {
				continue
			}
			if a.Sym == "" || strings.Contains(need, a.Sym) {
				included[i] = true
				need += a.Text
				changed = true
			}
		}
	}
	var axb strings.Builder
	var axs []string
	for i, a := range c.gax {
		if included[i] {
			axs = append(axs, a.Text)
		}
	}
	sort.Strings(axs)
	for _, a := range axs {
		axb.WriteString(a)
		axb.WriteByte('\n')
	}
	// declarations: sorts always (in dependency order), functions and constants when their name
	// occurs (sorted), so that the text does not depend on the order of first use
	var sortDecls, funDecls []string
	for _, d := range c.gdecls {
		if strings.HasPrefix(d, "(declare-fun ") {
			funDecls = append(funDecls, d)
		} else {
			sortDecls = append(sortDecls, d)
		}
	}
	sort.Strings(funDecls)
	sort.Strings(sortDecls)
	declared := map[string]bool{"Int": true, "Bool": true, "Str": true, "Slice": true, "Iface": true}
	known := map[string]bool{}
	for _, d := range sortDecls {
		n, _ := sortDeclInfo(d)
		known[n] = true
	}
	for len(sortDecls) > 0 {
		progress := false
		var rest []string
		for _, d := range sortDecls {
			name, deps := sortDeclInfo(d)
			ok := true
			for _, dp := range deps {
				if known[dp] && !declared[dp] && dp != name {
					ok = false
				}
			}
			if ok {
				b.WriteString(d)
				b.WriteByte('\n')
				declared[name] = true
				progress = true
			} else {
				rest = append(rest, d)
			}
		}
		sortDecls = rest
		if !progress {
			for _, d := range rest {
				b.WriteString(d)
				b.WriteByte('\n')
			}
			break
		}
	}
	for _, d := range funDecls {
		if strings.HasPrefix(d, "(declare-fun ") {
			name := d[len("(declare-fun "):]
			if i := strings.IndexAny(name, " )"); i > 0 {
				name = name[:i]
			}
			if !strings.Contains(need, name) {
				// multi-part declarations (box/unbox) carry a second function
				if j := strings.Index(d, "\n(declare-fun "); j < 0 || !strings.Contains(need, strings.Fields(d[j+len("\n(declare-fun "):])[0]) {
					continue
				}
			}
		}
		b.WriteString(d)
		b.WriteByte('\n')
	}
	b.WriteString(axb.String())
	// distinct pointer globals
	var used []string
	for _, g := range c.ptrGlobals {
		if strings.Contains(need, g) {
			used = append(used, g)
		}
	}
	if len(used) > 1 {
		fmt.Fprintf(&b, "(assert (distinct %s))\n", strings.Join(used, " "))
	}
	b.WriteString(text)
	b.WriteString("(check-sat)\n")
	return b.String()
}

var sortNameRe = regexp.MustCompile(`S_[A-Za-z0-9_]+`)

// sortDeclInfo returns the declared sort name and the S_ sorts a declaration mentions.
func sortDeclInfo(d string) (string, []string) {
	all := sortNameRe.FindAllString(d, -1)
	name := ""
	if strings.HasPrefix(d, "(declare-sort ") {
		name = strings.Fields(d[len("(declare-sort "):])[0]
	} else if i := strings.Index(d, "(("); i >= 0 {
		name = strings.Fields(d[i+2:])[0]
	}
	seen := map[string]bool{}
	var deps []string
	for _, a := range all {
		// selector/constructor names contain the sort name as a prefix: keep exact sort tokens only
		if seen[a] {
			continue
		}
		seen[a] = true
		deps = append(deps, a)
	}
	return name, deps
}

type solverSpec struct {
	name string
	args func(file string, timeoutMs int) []string
}

var solvers = []solverSpec{
	{"z3-new", func(f string, t int) []string { return []string{"z3-new", fmt.Sprintf("-t:%d", t), f} }},
	{"cvc5", func(f string, t int) []string {
		return []string{"cvc5", "--incremental", fmt.Sprintf("--tlimit=%d", t), f}
	}},
	{"z3", func(f string, t int) []string { return []string{"z3", fmt.Sprintf("-t:%d", t), f} }},
}

// raceSolvers adds differently seeded z3-new runs to the stage-2 race: e-matching on queries
// with many quantified facts is chaotic in the seed, and a portfolio makes the outcome stable.
var raceSolvers = append(append([]solverSpec{}, solvers...),
	solverSpec{"z3-new/s1", func(f string, t int) []string {
		return []string{"z3-new", fmt.Sprintf("-t:%d", t), "smt.random_seed=1", f}
	}},
	solverSpec{"z3-new/s2", func(f string, t int) []string {
		return []string{"z3-new", fmt.Sprintf("-t:%d", t), "smt.random_seed=2", f}
	}},
	solverSpec{"z3-new/s3", func(f string, t int) []string {
		return []string{"z3-new", fmt.Sprintf("-t:%d", t), "smt.random_seed=3", "smt.qi.eager_threshold=100", f}
	}},
)

// solverSlots bounds the number of solver processes running at any time to the number of
// cores, so that a solver's time limit means the same under load as in isolation (the stage-2
// race would otherwise start several processes per obligation and starve them all).
var solverSlots = make(chan struct{}, runtime.NumCPU())

func runSolver(ctx context.Context, sp solverSpec, file string, timeoutMs int) (string, float64, string) {
	select {
	case solverSlots <- struct{}{}:
	case <-ctx.Done():
		return "timeout", 0, "cancelled before start"
	}
	defer func() { <-solverSlots }()
	args := sp.args(file, timeoutMs)
	t0 := time.Now()
	cctx, cancel := context.WithTimeout(ctx, time.Duration(timeoutMs+2000)*time.Millisecond)
	defer cancel()
	cmd := exec.CommandContext(cctx, args[0], args[1:]...)
	var out bytes.Buffer
	cmd.Stdout = &out
	cmd.Stderr = &out
	_ = cmd.Run()
	secs := time.Since(t0).Seconds()
	text := out.String()
	first := strings.TrimSpace(strings.SplitN(text, "\n", 2)[0])
	switch first {
	case "unsat", "sat", "unknown":
		return first, secs, text
	}
	if cctx.Err() != nil || strings.Contains(text, "timeout") || strings.Contains(text, "interrupted") {
		return "timeout", secs, text
	}
	return "error", secs, text
}

// solveOne discharges one obligation: z3-new first (short), then a race of all three.
func solveOne(c *Ctx, ob *Obligation, entryFacts []*Term, dir string, idx int, timeoutMs int) {
	if ob.Solver == "syntactic" {
		return
	}
	q := c.Query(ob, entryFacts)
	ob.Query = filepath.Join(dir, fmt.Sprintf("q%05d.smt2", idx))
	if err := os.WriteFile(ob.Query, []byte(q), 0o644); err != nil {
		ob.Status = "error"
		ob.Model = err.Error()
		return
	}
	want := "unsat"
	if ob.ExpectSat {
		// vacuity probe: only a quick proof of unsatisfiability matters
		res, secs, text := runSolver(context.Background(), solvers[0], ob.Query, 1500)
		ob.Status, ob.Solver, ob.Secs, ob.Model = res, solvers[0].name, secs, text
		return
	}
	// stage 1
	quick := 2000
	if quick > timeoutMs {
		quick = timeoutMs
	}
	res, secs, text := runSolver(context.Background(), solvers[0], ob.Query, quick)
	ob.Secs += secs
	if res == want || (res == "sat" && !ob.ExpectSat) || (res == "unsat" && ob.ExpectSat) {
		ob.Status, ob.Solver, ob.Model = res, solvers[0].name, text
		if res == "sat" && !ob.ExpectSat {
			ob.Model = getModel(ob.Query, solvers[0], timeoutMs)
		}
		return
	}
	// stage 2: race; an undecided race is run once more with twice the time (a busy machine makes
	// solvers time out on goals they decide in a fraction of a second otherwise)
	type r struct {
		res, name, text string
		secs            float64
	}
	race := func(tmo int) r {
		ctx, cancel := context.WithCancel(context.Background())
		defer cancel()
		ch := make(chan r, len(raceSolvers))
		for _, sp := range raceSolvers {
			sp := sp
			go func() {
				res, secs, text := runSolver(ctx, sp, ob.Query, tmo)
				ch <- r{res, sp.name, text, secs}
			}()
		}
		best := r{res: "timeout"}
		for range raceSolvers {
			x := <-ch
			if x.res == "unsat" || x.res == "sat" {
				best = x
				cancel()
				break
			}
			if x.res == "unknown" || (x.res == "error" && best.res != "unknown") {
				best = x
			}
			if x.secs > ob.Secs {
				ob.Secs = x.secs
			}
		}
		return best
	}
	best := race(timeoutMs)
	if best.res != "unsat" && best.res != "sat" {
		if again := race(2 * timeoutMs); again.res == "unsat" || again.res == "sat" {
			best = again
		}
	}
	ob.Status, ob.Solver, ob.Model = best.res, best.name, best.text
	if best.secs > 0 {
		ob.Secs += best.secs
	}
	if best.res == "sat" && !ob.ExpectSat {
		for _, sp := range raceSolvers {
			if sp.name == best.name {
				ob.Model = getModel(ob.Query, sp, timeoutMs)
			}
		}
	}
}

func getModel(file string, sp solverSpec, timeoutMs int) string {
	data, err := os.ReadFile(file)
	if err != nil {
		return ""
	}
	mf := file + ".model.smt2"
	os.WriteFile(mf, append(data, []byte("(get-model)\n")...), 0o644)
	_, _, text := runSolver(context.Background(), sp, mf, timeoutMs)
	os.Remove(mf)
	if len(text) > 20000 {
		text = text[:20000] + "\n...(truncated)"
	}
	return text
}

// solveAll runs obligations in parallel.
func solveAll(c *Ctx, obls []*Obligation, facts map[*Obligation][]*Term, dir string, timeoutMs, par int) {
	var wg sync.WaitGroup
	sem := make(chan struct{}, par)
	for i, ob := range obls {
		wg.Add(1)
		sem <- struct{}{}
		go func(i int, ob *Obligation) {
			defer wg.Done()
			defer func() { <-sem }()
			solveOne(c, ob, facts[ob], dir, i, timeoutMs)
		}(i, ob)
	}
	wg.Wait()
}

// checkConsistency runs the call-site consistency probes: a probe whose path condition is
// unsatisfiable after assuming a callee's postconditions, but satisfiable before, reveals a
// contradictory contract. It returns the names of such probes.
func checkConsistency(c *Ctx, res []*procResult, dir string) []string {
	var post []*Obligation
	facts := map[*Obligation][]*Term{}
	for _, r := range res {
		if r.err != nil {
			continue
		}
		for _, ob := range r.callProbes {
			post = append(post, ob)
			facts[ob] = r.proc.entryFacts
		}
	}
	sub := filepath.Join(dir, "cons")
	os.MkdirAll(sub, 0o755)
	var wg sync.WaitGroup
	sem := make(chan struct{}, 16)
	for i, ob := range post {
		wg.Add(1)
		sem <- struct{}{}
		go func(i int, ob *Obligation) {
			defer wg.Done()
			defer func() { <-sem }()
			q := c.Query(ob, facts[ob])
			f := filepath.Join(sub, fmt.Sprintf("p%05d.smt2", i))
			os.WriteFile(f, []byte(q), 0o644)
			res, _, _ := runSolver(context.Background(), solvers[0], f, 500)
			ob.Status = res
		}(i, ob)
	}
	wg.Wait()
	var bad []string
	for i, ob := range post {
		if ob.Status != "unsat" {
			continue
		}
		pre := &Obligation{Name: ob.Name, PC: ob.PrePC, Goal: TFalse, Decls: ob.Decls, ExpectSat: true}
		q := c.Query(pre, facts[ob])
		f := filepath.Join(sub, fmt.Sprintf("pre%05d.smt2", i))
		os.WriteFile(f, []byte(q), 0o644)
		res, _, _ := runSolver(context.Background(), solvers[0], f, 1500)
		if res != "unsat" {
			bad = append(bad, ob.Name+" at "+ob.Where)
		}
	}
	return bad
}
