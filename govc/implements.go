package main

import (
	"fmt"
	"go/types"
	"sort"
	"strings"
)

// checkImplements compares the contract of every interface method with the contract of the
// method of each declared implementation (directive `implements pkg.Iface by *Type`, and
// `devirtualize`). Callers of an interface method reason with the interface contract only, so
// what that contract promises about callbacks must be promised by the implementation as well:
//
//   - `resolves P kind` and `defers P` of the interface method must appear for the parameter at
//     the same position in the implementation's contract;
//   - every `callback P requires E` of the interface method (what the callee promises about its
//     invocations of P) must appear, same text, in the implementation's contract;
//   - every `ensures E` must appear, same text after renaming parameters by position.
//
// These are errors. Implementation preconditions the interface does not state, and locations
// the implementation assigns although the interface says `assigns nothing`, are reported as
// notes (assumptions): they are receiver invariants and state of another package.
func checkImplements(c *Ctx) (errs []string, notes []string) {
	type pair struct{ ifaceKey, typeKey, where string }
	var pairs []pair
	for _, d := range c.dirs.Implements {
		ik := d.Iface
		if i := strings.Index(d.Iface, "."); i >= 0 && d.File != nil {
			for _, imp := range d.File.Imports {
				ip := strings.Trim(imp.Path.Value, `"`)
				name := shortPkg(ip)
				if imp.Name != nil {
					name = imp.Name.Name
				}
				if name == d.Iface[:i] {
					ik = ip + "." + d.Iface[i+1:]
				}
			}
		} else {
			ik = d.PkgPath + "." + d.Iface
		}
		pairs = append(pairs, pair{ik, d.PkgPath + "." + d.Type, d.Where})
	}
	for ik, tk := range c.dirs.Devirt {
		pairs = append(pairs, pair{ik, tk, "devirtualize"})
	}
	sort.Slice(pairs, func(i, j int) bool { return pairs[i].ifaceKey+pairs[i].typeKey < pairs[j].ifaceKey+pairs[j].typeKey })
	for _, pr := range pairs {
		i := strings.LastIndex(pr.ifaceKey, ".")
		tp := c.allPkgs[pr.ifaceKey[:i]]
		if tp == nil {
			errs = append(errs, fmt.Sprintf("%s: unknown package of interface %s", pr.where, pr.ifaceKey))
			continue
		}
		obj := tp.Scope().Lookup(pr.ifaceKey[i+1:])
		if obj == nil {
			errs = append(errs, fmt.Sprintf("%s: unknown interface %s", pr.where, pr.ifaceKey))
			continue
		}
		it, ok := obj.Type().Underlying().(*types.Interface)
		if !ok {
			errs = append(errs, fmt.Sprintf("%s: %s is not an interface", pr.where, pr.ifaceKey))
			continue
		}
		j := strings.LastIndex(pr.typeKey, ".")
		tpkg, tname := pr.typeKey[:j], pr.typeKey[j+1:]
		for k := 0; k < it.NumMethods(); k++ {
			m := it.Method(k)
			// the contract may be keyed by the package that declares the (embedded) interface
			ci := c.contracts[pr.ifaceKey+"."+m.Name()]
			if ci == nil && m.Pkg() != nil {
				if nt := namedOf(m.Type().(*types.Signature).Recv().Type()); nt != nil && nt.Obj().Pkg() != nil {
					ci = c.contracts[nt.Obj().Pkg().Path()+"."+nt.Obj().Name()+"."+m.Name()]
				}
			}
			if ci == nil {
				continue
			}
			ct := c.contracts[tpkg+".(*"+tname+")."+m.Name()]
			if ct == nil {
				ct = c.contracts[tpkg+"."+tname+"."+m.Name()]
			}
			name := fmt.Sprintf("%s.%s implemented by %s.%s", shortKey(pr.ifaceKey), m.Name(), shortKey(pr.typeKey), m.Name())
			// parameter names by position
			isig := m.Type().(*types.Signature)
			var tsig *types.Signature
			if fi := c.funcs[tpkg+".(*"+tname+")."+m.Name()]; fi != nil && fi.Obj != nil {
				tsig = fi.Obj.Type().(*types.Signature)
			} else if fi := c.funcs[tpkg+"."+tname+"."+m.Name()]; fi != nil && fi.Obj != nil {
				tsig = fi.Obj.Type().(*types.Signature)
			}
			rename := func(p string) string {
				if tsig == nil {
					return p
				}
				for x := 0; x < isig.Params().Len() && x < tsig.Params().Len(); x++ {
					if isig.Params().At(x).Name() == p {
						return tsig.Params().At(x).Name()
					}
				}
				return p
			}
			needs := false
			for _, cl := range ci.Clauses {
				switch cl.Kind {
				case "resolves", "defers", "cb.requires", "ensures":
					needs = true
				}
			}
			if ct == nil {
				if needs {
					notes = append(notes, fmt.Sprintf("%s: the implementation has no contract; the interface contract is trusted", name))
				}
				continue
			}
			has := func(kind, param, text string) bool {
				for _, cl := range ct.Clauses {
					if cl.Kind != kind {
						continue
					}
					switch kind {
					case "resolves":
						if cl.Param == param && cl.Arg == text {
							return true
						}
					case "defers":
						for _, n := range splitNames(cl.Text) {
							if n == param {
								return true
							}
						}
					default:
						if (param == "" || cl.Param == param) && normSpace(cl.Text) == normSpace(text) {
							return true
						}
					}
				}
				return false
			}
			for _, cl := range ci.Clauses {
				switch cl.Kind {
				case "resolves":
					if !has("resolves", rename(cl.Param), cl.Arg) {
						errs = append(errs, fmt.Sprintf("%s: interface promises `resolves %s %s` (%s), the implementation's contract does not", name, cl.Param, cl.Arg, cl.Where))
					}
				case "defers":
					for _, n := range splitNames(cl.Text) {
						if !has("defers", rename(n), "") {
							errs = append(errs, fmt.Sprintf("%s: interface promises `defers %s` (%s), the implementation's contract does not", name, n, cl.Where))
						}
					}
				case "cb.requires":
					if !has("cb.requires", rename(cl.Param), cl.Text) {
						errs = append(errs, fmt.Sprintf("%s: interface promises `callback %s requires %s` (%s), the implementation's contract does not", name, cl.Param, cl.Text, cl.Where))
					}
				case "ensures":
					if strings.Contains(cl.Text, "recv.") {
						// pure-getter naming clause (result == recv.M()): a definition, nothing to refine
						continue
					}
					if !has("ensures", "", cl.Text) {
						notes = append(notes, fmt.Sprintf("%s: interface postcondition `%s` is not literally among the implementation's postconditions (trusted)", name, cl.Text))
					}
				}
			}
			for _, cl := range ct.ByKind("requires") {
				found := false
				for _, icl := range ci.ByKind("requires") {
					if normSpace(icl.Text) == normSpace(cl.Text) {
						found = true
					}
				}
				if !found {
					notes = append(notes, fmt.Sprintf("%s: implementation precondition `%s` is not stated by the interface; assumed to hold for every receiver reached through the interface", name, cl.Text))
				}
			}
		}
	}
	return errs, notes
}

func shortKey(k string) string {
	if i := strings.LastIndex(k, "/"); i >= 0 {
		return k[i+1:]
	}
	return k
}

func normSpace(s string) string { return strings.Join(strings.Fields(s), " ") }
