package main

import (
	"fmt"
	"go/ast"
	"go/types"
	"sort"
	"strings"
)

// State is one symbolic state: variable values, heap arrays, path condition.
type State struct {
	vars   map[types.Object]*Term
	heap   map[string]*Term
	pc     []*Term
	defers []*deferred
	// resolve counters for callback parameters: object -> Int term
	resolved map[types.Object]*Term
	// bound variables for spec evaluation
	bound map[string]Val
	// havoc history: decides the value of heap arrays first touched after a wholesale havoc
	hv *havocTree
}

// havocTree records wholesale havocs (everything, or key wildcards). A leaf overrides what
// came before it (prev); a node joins the histories of two merged states.
type havocTree struct {
	leaf     bool
	all      bool
	patterns []string
	prev     *havocTree
	sel      *Term
	a, b     *havocTree
	cache    map[string]*Term
}

func (h *havocTree) hasAll() bool {
	if h == nil {
		return false
	}
	if h.leaf {
		return h.all || h.prev.hasAll()
	}
	return h.a.hasAll() || h.b.hasAll()
}

// resolve returns the value of an untouched heap array under a havoc history.
func (p *Proc) resolveHavoc(h *havocTree, key string, sort Sort, entry func() *Term) *Term {
	if h == nil {
		return entry()
	}
	if h.leaf {
		match := h.all && !strings.HasPrefix(key, "G:$")
		for _, pat := range h.patterns {
			if keyMatches(key, pat) {
				match = true
			}
		}
		if !match {
			return p.resolveHavoc(h.prev, key, sort, entry)
		}
		if t, ok := h.cache[key]; ok {
			return t
		}
		before := p.resolveHavoc(h.prev, key, sort, entry)
		t := p.freshConst("H_"+key, sort)
		h.cache[key] = t
		p.havocFacts = append(p.havocFacts, havocFact{key: key, old: before, nh: t})
		return t
	}
	ta := p.resolveHavoc(h.a, key, sort, entry)
	tb := p.resolveHavoc(h.b, key, sort, entry)
	return Ite(h.sel, ta, tb)
}

type deferred struct {
	call *ast.CallExpr
}

func newState() *State {
	return &State{vars: map[types.Object]*Term{}, heap: map[string]*Term{}, resolved: map[types.Object]*Term{}}
}

func (s *State) clone() *State {
	n := &State{
		vars:     make(map[types.Object]*Term, len(s.vars)),
		heap:     make(map[string]*Term, len(s.heap)),
		pc:       append([]*Term(nil), s.pc...),
		defers:   append([]*deferred(nil), s.defers...),
		resolved: make(map[types.Object]*Term, len(s.resolved)),
		hv:       s.hv,
	}
	for k, v := range s.vars {
		n.vars[k] = v
	}
	for k, v := range s.heap {
		n.heap[k] = v
	}
	for k, v := range s.resolved {
		n.resolved[k] = v
	}
	if s.bound != nil {
		n.bound = map[string]Val{}
		for k, v := range s.bound {
			n.bound[k] = v
		}
	}
	return n
}

func (s *State) assume(t *Term) {
	if t == nil || t.S == "true" {
		return
	}
	s.pc = append(s.pc, t)
}

// Obligation is one proof obligation: pc => goal.
type Obligation struct {
	Name   string
	Kind   string
	Tags   []string
	Proc   string
	Where  string
	PC     []*Term
	Goal   *Term
	Decls  *[]string // shared with the procedure
	NDecls int       // number of decls visible
	// vacuity probes: expect sat
	ExpectSat bool
	// lemma proofs may only use earlier lemmas
	LemmaIdx int
	// call-site consistency probe: PrePC is the path condition before the callee's ensures
	PrePC []*Term

	// results
	Status string // unsat, sat, unknown, timeout, error
	Solver string
	Secs   float64
	Model  string
	Query  string
}

// Val is a symbolic value with its Go type.
type Val struct {
	T     *Term
	Typ   types.Type
	IsNil bool // untyped nil
	// multi-value (call results)
	Multi []Val
	// for function values that are known closures or static functions
	Closure *ClosureVal
	Fn      *types.Func
}

// ClosureVal records a function literal created during symbolic execution.
type ClosureVal struct {
	Lit     *ast.FuncLit
	Ordinal int
	ID      *Term
}

func (p *Proc) freshName(hint string) string {
	p.fresh++
	return fmt.Sprintf("%s!%d", sanitize(hint), p.fresh)
}

// fresh declares a new constant.
func (p *Proc) freshConst(hint string, sort Sort) *Term {
	name := p.freshName(hint)
	p.decls = append(p.decls, fmt.Sprintf("(declare-fun |%s| () %s)", name, sort))
	return T("|"+name+"|", sort)
}

// define introduces a name for a term (keeps terms small).
func (p *Proc) define(st *State, hint string, t *Term) *Term {
	if len(t.S) < 160 || hasBound(t.S) {
		return t
	}
	c := p.freshConst(hint, t.Sort)
	st.assume(Eq(c, t))
	return c
}

// heapGet returns the current term of a heap array, declaring the entry symbol on demand.
func (p *Proc) heapGet(st *State, key string, sort Sort) *Term {
	if key != "AL:" {
		p.heapReads++
	}
	if t, ok := st.heap[key]; ok {
		return t
	}
	entry := func() *Term {
		// entry symbol shared by all states of the procedure
		if t, ok := p.heapEntry[key]; ok {
			return t
		}
		name := "H_" + sanitize(key)
		p.decls = append(p.decls, fmt.Sprintf("(declare-fun |%s| () %s)", name, sort))
		t := T("|"+name+"|", sort)
		p.heapEntry[key] = t
		p.heapOrder = append(p.heapOrder, key)
		p.entryFacts = append(p.entryFacts, p.heapInitFacts(key, t)...)
		return t
	}
	n0 := len(p.havocFacts)
	t := p.resolveHavoc(st.hv, key, sort, entry)
	// facts about lazily havocked arrays (allocation grows, nil map stays empty) hold globally
	for _, hf := range p.havocFacts[n0:] {
		tmp := newState()
		p.heapMonotone(tmp, hf.key, hf.old, hf.nh)
		p.entryFacts = append(p.entryFacts, tmp.pc...)
	}
	st.heap[key] = t
	return t
}

type havocFact struct {
	key     string
	old, nh *Term
}

// heapInitFacts: facts true of every heap (nil map is empty).
func (p *Proc) heapInitFacts(key string, t *Term) []*Term {
	switch {
	case strings.HasPrefix(key, "MD:"):
		_, inner := elemSortOfArr(t.Sort)
		ks, _ := elemSortOfArr(inner)
		return []*Term{T(fmt.Sprintf("(forall ((k!m %s)) (not (select (select %s 0) k!m)))", ks, t.S), SBool)}
	case strings.HasPrefix(key, "MC:"):
		return []*Term{Eq(Sel(t, IntLit(0)), IntLit(0))}
	case key == "AL:":
		return []*Term{Not(Sel(t, IntLit(0)))}
	}
	return nil
}

func (p *Proc) heapMonotoneEntry(st *State, key string, t *Term) {
	for _, f := range p.heapInitFacts(key, t) {
		st.assume(f)
	}
}

func (p *Proc) heapSet(st *State, key string, t *Term) {
	st.heap[key] = t
}

// havocHeap replaces a heap array with a fresh symbol.
func (p *Proc) havocHeap(st *State, key string, sort Sort) *Term {
	t := p.freshConst("H_"+key, sort)
	st.heap[key] = t
	return t
}

// mergeForce joins states unconditionally (sites that need a single continuation).
func (p *Proc) mergeForce(states []*State) []*State {
	p.forceMerge = true
	defer func() { p.forceMerge = false }()
	return p.merge(states)
}

// merge joins states; nil and dead states are dropped. States with different defer stacks are not merged.
func (p *Proc) merge(states []*State) []*State {
	var live []*State
	for _, s := range states {
		if s != nil {
			live = append(live, s)
		}
	}
	if len(live) <= 1 {
		return live
	}
	// group by defer signature
	groups := map[string][]*State{}
	var order []string
	for _, s := range live {
		sig := deferSig(s)
		if _, ok := groups[sig]; !ok {
			order = append(order, sig)
		}
		groups[sig] = append(groups[sig], s)
	}
	var out []*State
	for _, sig := range order {
		g := groups[sig]
		// states whose divergent facts are quantified (loop invariants, callee posts) stay
		// separate: a disjunction of quantified facts makes the solvers give up
		var merged []*State
		for _, s := range g {
			done := false
			for i, m := range merged {
				if p.forceMerge || canMerge(m, s) {
					merged[i] = p.merge2(m, s)
					done = true
					break
				}
			}
			if !done {
				merged = append(merged, s)
			}
		}
		out = append(out, merged...)
	}
	return out
}

func canMerge(a, b *State) bool {
	n := 0
	for n < len(a.pc) && n < len(b.pc) && a.pc[n] == b.pc[n] {
		n++
	}
	// a few quantified facts on either side are fine; many (typically loop invariants) are not
	q := 0
	for _, t := range a.pc[n:] {
		q += strings.Count(t.S, "(forall ") + strings.Count(t.S, "(exists ")
	}
	for _, t := range b.pc[n:] {
		q += strings.Count(t.S, "(forall ") + strings.Count(t.S, "(exists ")
	}
	return q <= 3
}

func deferSig(s *State) string {
	var b strings.Builder
	for _, d := range s.defers {
		fmt.Fprintf(&b, "%d;", d.call.Pos())
	}
	return b.String()
}

func (p *Proc) merge2(a, b *State) *State {
	// common pc prefix
	n := 0
	for n < len(a.pc) && n < len(b.pc) && a.pc[n] == b.pc[n] {
		n++
	}
	ra := And(a.pc[n:]...)
	rb := And(b.pc[n:]...)
	var sel *Term
	// if the first differing facts are complementary, use them as selector
	if n < len(a.pc) && n < len(b.pc) && (a.pc[n].S == Not(b.pc[n]).S) {
		sel = a.pc[n]
	} else {
		sel = p.freshConst("sel", SBool)
	}
	m := &State{
		vars:     map[types.Object]*Term{},
		heap:     map[string]*Term{},
		pc:       append([]*Term(nil), a.pc[:n]...),
		defers:   a.defers,
		resolved: map[types.Object]*Term{},
	}
	if a.hv == b.hv {
		m.hv = a.hv
	} else {
		m.hv = &havocTree{sel: sel, a: a.hv, b: b.hv}
	}
	m.pc = append(m.pc, Imp(sel, ra), Imp(Not(sel), rb))
	for _, k := range sortedObjs(a.vars) {
		va := a.vars[k]
		vb, ok := b.vars[k]
		if !ok {
			continue // variable out of scope in one branch
		}
		if va == vb || va.S == vb.S {
			m.vars[k] = va
		} else {
			m.vars[k] = p.defineIte(m, "m_"+k.Name(), sel, va, vb)
		}
	}
	for _, k := range sortedKeys(a.heap) {
		va := a.heap[k]
		vb, ok := b.heap[k]
		if !ok {
			vb = p.heapGet(b, k, va.Sort)
		}
		if va == vb || va.S == vb.S {
			m.heap[k] = va
		} else {
			m.heap[k] = p.defineIte(m, "mh_"+k, sel, va, vb)
		}
	}
	for _, k := range sortedKeys(b.heap) {
		vb := b.heap[k]
		if _, ok := a.heap[k]; ok {
			continue
		}
		va := p.heapGet(a, k, vb.Sort)
		if va == vb || va.S == vb.S {
			m.heap[k] = va
		} else {
			m.heap[k] = p.defineIte(m, "mh_"+k, sel, va, vb)
		}
	}
	for _, k := range sortedObjs(a.resolved) {
		va := a.resolved[k]
		vb, ok := b.resolved[k]
		if !ok {
			vb = IntLit(0)
		}
		m.resolved[k] = Ite(sel, va, vb)
	}
	for _, k := range sortedObjs(b.resolved) {
		vb := b.resolved[k]
		if _, ok := a.resolved[k]; !ok {
			m.resolved[k] = Ite(sel, IntLit(0), vb)
		}
	}
	return m
}

func (p *Proc) defineIte(st *State, hint string, c, a, b *Term) *Term {
	t := Ite(c, a, b)
	if len(t.S) < 120 {
		return t
	}
	n := p.freshConst(hint, t.Sort)
	st.assume(Eq(n, t))
	return n
}

// oblige records a proof obligation pc => goal in the given state.
func (p *Proc) oblige(st *State, kind, name string, tags []string, goal *Term, where string) {
	ob := &Obligation{
		Name:  p.fi.Name + ":" + name,
		Kind:  kind,
		Tags:  tags,
		Proc:  p.fi.Name,
		Where: where,
		PC:    append([]*Term(nil), st.pc...),
		Goal:  goal,
		Decls: &p.decls,
	}
	if goal.S == "true" {
		// decided while generating (e.g. a resolution counter that is literally 1)
		p.trivial++
		ob.Status, ob.Solver = "unsat", "syntactic"
		ob.PC = nil
	}
	p.obls = append(p.obls, ob)
}

// sortedKeys returns sorted heap keys (deterministic output).
func sortedKeys(m map[string]*Term) []string {
	ks := make([]string, 0, len(m))
	for k := range m {
		ks = append(ks, k)
	}
	sort.Strings(ks)
	return ks
}


// keyMatches: a heap key matches a wildcard that is either a key prefix or "~text" (a slice/map
// heap whose Go type mentions text).
func keyMatches(key, pat string) bool {
	if strings.HasPrefix(pat, "~") {
		if !(strings.HasPrefix(key, "SH:") || strings.HasPrefix(key, "MD:") || strings.HasPrefix(key, "MV:") || strings.HasPrefix(key, "MC:")) {
			return false
		}
		return strings.Contains(key, pat[1:])
	}
	return strings.HasPrefix(key, pat)
}

// sortedObjs returns the keys of an object map in a deterministic order.
func sortedObjs(m map[types.Object]*Term) []types.Object {
	ks := make([]types.Object, 0, len(m))
	for k := range m {
		ks = append(ks, k)
	}
	sort.Slice(ks, func(i, j int) bool {
		if ks[i].Pos() != ks[j].Pos() {
			return ks[i].Pos() < ks[j].Pos()
		}
		return ks[i].Name() < ks[j].Name()
	})
	return ks
}
