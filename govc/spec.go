package main

import (
	"fmt"
	"go/ast"
	"go/scanner"
	"go/token"
	"os"
	"regexp"
	"strconv"
	"strings"
)

// Clause is one line (possibly continued) of a contract block.
type Clause struct {
	Kind  string   // requires, ensures, assigns, invariant, decreases, cbrequires, cbensures, resolves, assert, ...
	Tags  []string // property ids
	Loop  int      // loop ordinal for loop clauses
	Param string   // callback parameter name for cb clauses / resolves
	Arg   string   // extra word (e.g. exactly-once)
	Text  string
	Expr  ast.Expr
	Exprs []ast.Expr // for assigns lists
	Where string
}

// Contract is a block of clauses attached to a function, closure, lib function or type.
type Contract struct {
	Kind    string // func, closure, lib, invariant
	Name    string // e.g. "(*Access).CanCall", "(*wsConn).GetResource#2", "strings.IndexByte"
	PkgPath string // package path of the contract file ("" for lib files)
	File    *ast.File
	PTypes  []ast.Expr
	Params  []string // lib: parameter names
	Results []string // lib: result names
	Clauses []*Clause
	Trusted bool
	Inline  bool
	Where   string
	Used    bool
}

func (c *Contract) ByKind(kind string) []*Clause {
	var out []*Clause
	for _, cl := range c.Clauses {
		if cl.Kind == kind {
			out = append(out, cl)
		}
	}
	return out
}

// Directives are single-line declarations in contract files.
type Directives struct {
	Immutable   map[string]bool   // "pkgpath.Type.field"
	Devirt      map[string]string // "pkgpath.Iface" -> "pkgpath.Type" (pointer receiver implied)
	Drop        map[string]bool   // qualified function / method names whose calls are dropped
	GhostVars   map[string]string // name -> type text
	GhostFields map[string]string // "pkgpath.Type.field" -> type text
	Defines     map[string]*Define
	Pending     map[string]bool // "pkgpath.Type.field": callbacks stored here are invoked exactly once later
	Implements  []ImplDecl      // implements pkg.Iface by *Type
}

// ImplDecl declares that a type of the declaring package implements an interface whose methods
// carry contracts: the implementation's contracts are checked to refine them.
type ImplDecl struct {
	PkgPath string // declaring package (of the implementing type)
	Iface   string // as written: "Iface" or "pkg.Iface"
	Type    string // type name (pointer receiver implied)
	Where   string
	File    *ast.File
}

// Define is a specification macro: define name(p T, ...) R = expr
type Define struct {
	Name    string
	PkgPath string
	Params  []string
	PTypes  []ast.Expr
	Result  ast.Expr
	Body    ast.Expr
	Where   string
}

var clauseKeywords = map[string]bool{
	"requires": true, "ensures": true, "assigns": true, "loop": true, "callback": true,
	"resolves": true, "trusted": true, "inline": true, "holds": true, "assert": true,
	"decreases": true, "hint": true, "modular": true, "spawns": true, "noframe": true,
	"safety": true, "trigger": true, "assumes": true, "defers": true, "invokes": true, "defines": true,
	"stable": true,
}

var tagRe = regexp.MustCompile(`^\[([A-Z0-9, ]+)\]`)

// parseContractText parses the "//@" lines of one file.
// lines: the text after "//@" of each contract line, with position strings.
func parseContractLines(lines []string, where []string, pkgPath string, file *ast.File, dirs *Directives) ([]*Contract, error) {
	var out []*Contract
	var cur *Contract
	var last *Clause
	for i, raw := range lines {
		ln := strings.TrimRight(raw, " \t")
		if strings.TrimSpace(ln) == "" {
			continue
		}
		if c := strings.Index(ln, " //"); c >= 0 && !strings.Contains(ln[c:], `"`) {
			ln = strings.TrimRight(ln[:c], " \t")
		}
		trim := strings.TrimSpace(ln)
		indent := len(ln) - len(strings.TrimLeft(ln, " \t"))
		fields := strings.Fields(trim)
		head := fields[0]
		if indent <= 1 {
			last = nil
			// header or directive
			switch head {
			case "lemma":
				// lemma NAME(p T, q U)
				rest := strings.TrimSpace(trim[len(head):])
				op := strings.Index(rest, "(")
				cp := strings.LastIndex(rest, ")")
				if op < 0 || cp < op {
					return nil, fmt.Errorf("%s: bad lemma header %q", where[i], trim)
				}
				cur = &Contract{Kind: "lemma", PkgPath: pkgPath, File: file, Where: where[i], Name: strings.TrimSpace(rest[:op])}
				for _, prm := range splitTop(rest[op+1 : cp]) {
					f := strings.Fields(prm)
					if len(f) != 2 {
						return nil, fmt.Errorf("%s: bad lemma parameter %q", where[i], prm)
					}
					te, err := ParseSpecType(f[1])
					if err != nil {
						return nil, err
					}
					cur.Params = append(cur.Params, f[0])
					cur.PTypes = append(cur.PTypes, te)
				}
				out = append(out, cur)
			case "func", "closure", "lib", "invariant":
				cur = &Contract{Kind: head, PkgPath: pkgPath, File: file, Where: where[i]}
				rest := strings.TrimSpace(trim[len(head):])
				if head == "lib" {
					// lib NAME(p1, p2) (r1, r2)
					// NAME may contain "(*T)"; the parameter list is the first "(" not followed by "*"
					op := -1
					for k := 0; k+1 < len(rest); k++ {
						if rest[k] == '(' && rest[k+1] != '*' {
							op = k
							break
						}
					}
					cp := -1
					if op >= 0 {
						cp = op + strings.Index(rest[op:], ")")
					}
					if op < 0 || cp < op {
						return nil, fmt.Errorf("%s: bad lib header %q", where[i], trim)
					}
					cur.Name = rest[:op]
					cur.Params = splitNames(rest[op+1 : cp])
					cur.Results = splitNames(strings.Trim(rest[cp+1:], "() "))
					cur.Trusted = true
				} else {
					cur.Name = rest
				}
				out = append(out, cur)
			case "define":
				cur = nil
				// the body may continue on following indented lines
				text := strings.TrimSpace(trim[len(head):])
				for i+1 < len(lines) {
					nx := strings.TrimRight(lines[i+1], " \t")
					if strings.TrimSpace(nx) == "" || len(nx)-len(strings.TrimLeft(nx, " \t")) <= 1 {
						break
					}
					text += " " + strings.TrimSpace(nx)
					lines[i+1] = ""
					i++
				}
				d, err := parseDefine(text)
				if err != nil {
					return nil, fmt.Errorf("%s: %v", where[i], err)
				}
				d.PkgPath = pkgPath
				d.Where = where[i]
				dirs.Defines[d.Name] = d
			case "immutable":
				cur = nil
				for _, f := range splitNames(strings.TrimSpace(trim[len(head):])) {
					dirs.Immutable[qualify(pkgPath, f)] = true
				}
			case "devirtualize":
				cur = nil
				// devirtualize Iface => *Type
				rest := strings.TrimSpace(trim[len(head):])
				parts := strings.Split(rest, "=>")
				if len(parts) != 2 {
					return nil, fmt.Errorf("%s: bad devirtualize %q", where[i], trim)
				}
				dirs.Devirt[qualify(pkgPath, strings.TrimSpace(parts[0]))] = qualify(pkgPath, strings.TrimLeft(strings.TrimSpace(parts[1]), "*"))
			case "implements":
				cur = nil
				// implements pkg.Iface by *Type
				rest := strings.Fields(strings.TrimSpace(trim[len(head):]))
				if len(rest) != 3 || rest[1] != "by" {
					return nil, fmt.Errorf("%s: bad implements %q (want: implements pkg.Iface by *Type)", where[i], trim)
				}
				dirs.Implements = append(dirs.Implements, ImplDecl{PkgPath: pkgPath, Iface: rest[0], Type: strings.TrimLeft(rest[2], "*"), Where: where[i], File: file})
			case "pending":
				cur = nil
				for _, f := range splitNames(strings.TrimSpace(trim[len(head):])) {
					dirs.Pending[qualify(pkgPath, f)] = true
				}
			case "drop":
				cur = nil
				for _, f := range splitNames(strings.TrimSpace(trim[len(head):])) {
					dirs.Drop[f] = true
				}
			case "ghost":
				cur = nil
				// ghost var NAME TYPE  |  ghost field Type.f TYPE
				if len(fields) != 4 {
					return nil, fmt.Errorf("%s: bad ghost declaration %q", where[i], trim)
				}
				if fields[1] == "var" {
					dirs.GhostVars[fields[2]] = fields[3]
				} else {
					dirs.GhostFields[qualify(pkgPath, fields[2])] = fields[3]
				}
			default:
				return nil, fmt.Errorf("%s: unknown contract header %q", where[i], trim)
			}
			continue
		}
		if cur == nil {
			return nil, fmt.Errorf("%s: clause outside a contract block: %q", where[i], trim)
		}
		if !clauseKeywords[strings.SplitN(head, "[", 2)[0]] {
			// continuation
			if last == nil {
				return nil, fmt.Errorf("%s: unknown clause %q", where[i], trim)
			}
			last.Text += " " + trim
			continue
		}
		cl := &Clause{Where: where[i]}
		rest := trim
		kw := strings.SplitN(head, "[", 2)[0]
		rest = strings.TrimSpace(rest[len(kw):])
		if m := tagRe.FindStringSubmatch(rest); m != nil {
			for _, t := range strings.Split(m[1], ",") {
				cl.Tags = append(cl.Tags, strings.TrimSpace(t))
			}
			rest = strings.TrimSpace(rest[len(m[0]):])
		}
		switch kw {
		case "trusted":
			cur.Trusted = true
			continue
		case "inline":
			cur.Inline = true
			continue
		case "loop":
			// loop N invariant|decreases|assigns EXPR
			f := strings.Fields(rest)
			if len(f) < 2 {
				return nil, fmt.Errorf("%s: bad loop clause %q", where[i], trim)
			}
			n, err := strconv.Atoi(f[0])
			if err != nil {
				return nil, fmt.Errorf("%s: bad loop ordinal %q", where[i], trim)
			}
			cl.Loop = n
			sub := strings.SplitN(f[1], "[", 2)[0]
			cl.Kind = "loop." + sub
			rest = strings.TrimSpace(rest[strings.Index(rest, f[1])+len(sub):])
			if sub == "let" {
				// loop N let NAME = EXPR
				eq := strings.Index(rest, "=")
				if eq < 0 {
					return nil, fmt.Errorf("%s: bad loop let %q", where[i], trim)
				}
				cl.Param = strings.TrimSpace(rest[:eq])
				rest = strings.TrimSpace(rest[eq+1:])
			}
			if m := tagRe.FindStringSubmatch(rest); m != nil {
				for _, t := range strings.Split(m[1], ",") {
					cl.Tags = append(cl.Tags, strings.TrimSpace(t))
				}
				rest = strings.TrimSpace(rest[len(m[0]):])
			}
		case "callback":
			// callback P requires|ensures EXPR
			f := strings.Fields(rest)
			if len(f) < 2 {
				return nil, fmt.Errorf("%s: bad callback clause %q", where[i], trim)
			}
			cl.Param = f[0]
			sub := strings.SplitN(f[1], "[", 2)[0]
			cl.Kind = "cb." + sub
			rest = strings.TrimSpace(rest[strings.Index(rest, f[1])+len(sub):])
			if m := tagRe.FindStringSubmatch(rest); m != nil {
				for _, t := range strings.Split(m[1], ",") {
					cl.Tags = append(cl.Tags, strings.TrimSpace(t))
				}
				rest = strings.TrimSpace(rest[len(m[0]):])
			}
		case "resolves":
			// resolves P exactly-once
			f := strings.Fields(rest)
			if len(f) != 2 {
				return nil, fmt.Errorf("%s: bad resolves clause %q", where[i], trim)
			}
			cl.Kind = "resolves"
			cl.Param = f[0]
			cl.Arg = f[1]
			rest = ""
		case "assert":
			cl.Kind = "assert"
			i2 := strings.Index(rest, ": ")
			if i2 < 0 {
				return nil, fmt.Errorf("%s: bad assert clause %q (want: assert[Cxx] callee#k: expr)", where[i], trim)
			}
			cl.Param = strings.TrimSpace(rest[:i2])
			rest = strings.TrimSpace(rest[i2+2:])
		default:
			cl.Kind = kw
		}
		cl.Text = rest
		cur.Clauses = append(cur.Clauses, cl)
		last = cl
	}
	// parse expressions
	for _, c := range out {
		for _, cl := range c.Clauses {
			if cl.Text == "" {
				continue
			}
			switch cl.Kind {
			case "assigns", "loop.assigns", "cb.assigns":
				if cl.Text == "nothing" {
					continue
				}
				if cl.Text == "*" {
					cl.Arg = "*"
					continue
				}
				for _, part := range splitTop(cl.Text) {
					e, err := ParseSpecExpr(part)
					if err != nil {
						return nil, fmt.Errorf("%s: %v in %q", cl.Where, err, part)
					}
					cl.Exprs = append(cl.Exprs, e)
				}
			case "spawns", "modular", "noframe", "safety", "defers", "stable":
			default:
				e, err := ParseSpecExpr(cl.Text)
				if err != nil {
					return nil, fmt.Errorf("%s: %v in %q", cl.Where, err, cl.Text)
				}
				cl.Expr = e
			}
		}
	}
	return out, nil
}

// parseDefine parses: name(p T, q U) R = expr
func parseDefine(text string) (*Define, error) {
	eq := strings.Index(text, " = ")
	if eq < 0 {
		return nil, fmt.Errorf("bad define %q", text)
	}
	head, body := strings.TrimSpace(text[:eq]), strings.TrimSpace(text[eq+3:])
	op := strings.Index(head, "(")
	cp := strings.LastIndex(head, ")")
	if op < 0 || cp < op {
		return nil, fmt.Errorf("bad define header %q", head)
	}
	d := &Define{Name: strings.TrimSpace(head[:op])}
	for _, prm := range splitTop(head[op+1 : cp]) {
		f := strings.Fields(prm)
		if len(f) == 0 {
			continue
		}
		if len(f) != 2 {
			return nil, fmt.Errorf("bad define parameter %q", prm)
		}
		te, err := ParseSpecType(f[1])
		if err != nil {
			return nil, err
		}
		d.Params = append(d.Params, f[0])
		d.PTypes = append(d.PTypes, te)
	}
	rt, err := ParseSpecType(strings.TrimSpace(head[cp+1:]))
	if err != nil {
		return nil, err
	}
	d.Result = rt
	e, err := ParseSpecExpr(body)
	if err != nil {
		return nil, fmt.Errorf("%v in %q", err, body)
	}
	d.Body = e
	return d, nil
}

func qualify(pkgPath, name string) string {
	if strings.Contains(name, "/") || pkgPath == "" {
		return name
	}
	return pkgPath + "." + name
}

func splitNames(s string) []string {
	var out []string
	for _, p := range strings.Split(s, ",") {
		p = strings.TrimSpace(p)
		if p != "" {
			out = append(out, p)
		}
	}
	return out
}

// splitTop splits at top-level commas.
func splitTop(s string) []string {
	var out []string
	d := 0
	start := 0
	for i := 0; i < len(s); i++ {
		switch s[i] {
		case '(', '[', '{':
			d++
		case ')', ']', '}':
			d--
		case ',':
			if d == 0 {
				out = append(out, strings.TrimSpace(s[start:i]))
				start = i + 1
			}
		}
	}
	out = append(out, strings.TrimSpace(s[start:]))
	return out
}

// readSpecFile reads a plain-text lib spec file (lines starting with "//@" or not).
func readSpecFile(path string, dirs *Directives) ([]*Contract, error) {
	data, err := os.ReadFile(path)
	if err != nil {
		return nil, err
	}
	var lines, where []string
	for i, ln := range strings.Split(string(data), "\n") {
		t := strings.TrimSpace(ln)
		if strings.HasPrefix(t, "#") {
			continue
		}
		if strings.HasPrefix(t, "//@") {
			ln = strings.TrimPrefix(t, "//@")
		}
		lines = append(lines, ln)
		where = append(where, fmt.Sprintf("%s:%d", path, i+1))
	}
	return parseContractLines(lines, where, "", nil, dirs)
}

// ---------------------------------------------------------------------------
// Spec expression parser (Go expression syntax + ==>, forall, exists).

type tok struct {
	tok token.Token
	lit string
	off int
}

type specParser struct {
	toks []tok
	p    int
	src  string
}

func ParseSpecExpr(src string) (e ast.Expr, err error) {
	fset := token.NewFileSet()
	file := fset.AddFile("", fset.Base(), len(src))
	var s scanner.Scanner
	var serr error
	s.Init(file, []byte(src), func(pos token.Position, msg string) { serr = fmt.Errorf("scan: %s", msg) }, 0)
	sp := &specParser{src: src}
	for {
		pos, t, lit := s.Scan()
		if t == token.EOF {
			break
		}
		if t == token.SEMICOLON && lit == "\n" {
			continue
		}
		sp.toks = append(sp.toks, tok{t, lit, int(pos) - file.Base()})
	}
	if serr != nil {
		return nil, serr
	}
	defer func() {
		if r := recover(); r != nil {
			if pe, ok := r.(parseErr); ok {
				err = fmt.Errorf("parse: %s", string(pe))
				return
			}
			panic(r)
		}
	}()
	e = sp.parseImplies()
	if sp.p < len(sp.toks) {
		sp.fail("unexpected token %q", sp.toks[sp.p].tok.String()+sp.toks[sp.p].lit)
	}
	return e, nil
}

// ParseSpecType parses a type expression.
func ParseSpecType(src string) (e ast.Expr, err error) {
	fset := token.NewFileSet()
	file := fset.AddFile("", fset.Base(), len(src))
	var s scanner.Scanner
	s.Init(file, []byte(src), nil, 0)
	sp := &specParser{src: src}
	for {
		pos, t, lit := s.Scan()
		if t == token.EOF {
			break
		}
		if t == token.SEMICOLON && lit == "\n" {
			continue
		}
		sp.toks = append(sp.toks, tok{t, lit, int(pos) - file.Base()})
	}
	defer func() {
		if r := recover(); r != nil {
			if pe, ok := r.(parseErr); ok {
				err = fmt.Errorf("parse type: %s", string(pe))
				return
			}
			panic(r)
		}
	}()
	return sp.parseType(), nil
}

type parseErr string

func (sp *specParser) fail(f string, a ...interface{}) { panic(parseErr(fmt.Sprintf(f, a...))) }

func (sp *specParser) peek() tok {
	if sp.p < len(sp.toks) {
		return sp.toks[sp.p]
	}
	return tok{tok: token.EOF}
}
func (sp *specParser) next() tok { t := sp.peek(); sp.p++; return t }
func (sp *specParser) expect(t token.Token) tok {
	x := sp.next()
	if x.tok != t {
		sp.fail("expected %s, got %s %q", t, x.tok, x.lit)
	}
	return x
}

func (sp *specParser) isImplies() bool {
	if sp.p+1 < len(sp.toks) {
		a, b := sp.toks[sp.p], sp.toks[sp.p+1]
		return a.tok == token.EQL && b.tok == token.GTR && b.off == a.off+2
	}
	return false
}

func mkCall(name string, args ...ast.Expr) ast.Expr {
	return &ast.CallExpr{Fun: ast.NewIdent(name), Args: args}
}

func (sp *specParser) parseImplies() ast.Expr {
	l := sp.parseBin(1)
	if sp.isImplies() {
		sp.p += 2
		r := sp.parseImplies()
		return mkCall("$implies", l, r)
	}
	return l
}

func prec(t token.Token) int {
	switch t {
	case token.LOR:
		return 1
	case token.LAND:
		return 2
	case token.EQL, token.NEQ, token.LSS, token.LEQ, token.GTR, token.GEQ:
		return 3
	case token.ADD, token.SUB, token.OR, token.XOR:
		return 4
	case token.MUL, token.QUO, token.REM, token.SHL, token.SHR, token.AND, token.AND_NOT:
		return 5
	}
	return 0
}

func (sp *specParser) parseBin(minPrec int) ast.Expr {
	l := sp.parseUnary()
	for {
		if sp.isImplies() {
			return l
		}
		t := sp.peek()
		p := prec(t.tok)
		if p == 0 || p < minPrec {
			return l
		}
		sp.next()
		r := sp.parseBin(p + 1)
		l = &ast.BinaryExpr{X: l, Op: t.tok, Y: r}
	}
}

func (sp *specParser) parseUnary() ast.Expr {
	t := sp.peek()
	switch t.tok {
	case token.NOT, token.SUB, token.XOR, token.ADD:
		sp.next()
		return &ast.UnaryExpr{Op: t.tok, X: sp.parseUnary()}
	case token.MUL:
		sp.next()
		return &ast.StarExpr{X: sp.parseUnary()}
	case token.AND:
		sp.next()
		return &ast.UnaryExpr{Op: token.AND, X: sp.parseUnary()}
	}
	return sp.parsePostfix(sp.parsePrimary())
}

func (sp *specParser) parseType() ast.Expr {
	t := sp.next()
	switch t.tok {
	case token.MUL:
		return &ast.StarExpr{X: sp.parseType()}
	case token.LBRACK:
		sp.expect(token.RBRACK)
		return &ast.ArrayType{Elt: sp.parseType()}
	case token.IDENT:
		if sp.peek().tok == token.PERIOD {
			sp.next()
			sel := sp.expect(token.IDENT)
			return &ast.SelectorExpr{X: ast.NewIdent(t.lit), Sel: ast.NewIdent(sel.lit)}
		}
		return ast.NewIdent(t.lit)
	case token.MAP:
		sp.expect(token.LBRACK)
		k := sp.parseType()
		sp.expect(token.RBRACK)
		return &ast.MapType{Key: k, Value: sp.parseType()}
	case token.STRUCT:
		sp.expect(token.LBRACE)
		sp.expect(token.RBRACE)
		return &ast.StructType{Fields: &ast.FieldList{}}
	case token.FUNC:
		sp.expect(token.LPAREN)
		sp.expect(token.RPAREN)
		return &ast.FuncType{Params: &ast.FieldList{}}
	case token.INTERFACE:
		sp.expect(token.LBRACE)
		sp.expect(token.RBRACE)
		return &ast.InterfaceType{Methods: &ast.FieldList{}}
	}
	sp.fail("bad type at %q", t.lit)
	return nil
}

func (sp *specParser) parsePrimary() ast.Expr {
	t := sp.next()
	switch t.tok {
	case token.INT, token.CHAR, token.STRING, token.FLOAT:
		return &ast.BasicLit{Kind: t.tok, Value: t.lit}
	case token.LPAREN:
		e := sp.parseImplies()
		sp.expect(token.RPAREN)
		return &ast.ParenExpr{X: e}
	case token.IDENT:
		if t.lit == "forall" || t.lit == "exists" {
			// forall a, b T, c U :: [{trig, ...}] body
			fl := &ast.FieldList{}
			for {
				var names []*ast.Ident
				names = append(names, ast.NewIdent(sp.expect(token.IDENT).lit))
				for sp.peek().tok == token.COMMA {
					sp.next()
					names = append(names, ast.NewIdent(sp.expect(token.IDENT).lit))
				}
				typ := sp.parseType()
				fl.List = append(fl.List, &ast.Field{Names: names, Type: typ})
				if sp.peek().tok == token.COMMA {
					sp.next()
					continue
				}
				break
			}
			sp.expect(token.COLON)
			sp.expect(token.COLON)
			var trigs []ast.Expr
			for sp.peek().tok == token.LBRACE {
				sp.next()
				var group []ast.Expr
				for {
					group = append(group, sp.parseImplies())
					if sp.peek().tok == token.COMMA {
						sp.next()
						continue
					}
					break
				}
				sp.expect(token.RBRACE)
				trigs = append(trigs, mkCall("$trig", group...))
			}
			body := sp.parseImplies()
			lit := &ast.FuncLit{Type: &ast.FuncType{Params: fl}, Body: &ast.BlockStmt{List: []ast.Stmt{&ast.ReturnStmt{Results: []ast.Expr{body}}}}}
			args := []ast.Expr{lit}
			args = append(args, trigs...)
			return mkCall("$"+t.lit, args...)
		}
		return ast.NewIdent(t.lit)
	case token.LBRACK:
		// []T(x) conversion or type
		sp.expect(token.RBRACK)
		return &ast.ArrayType{Elt: sp.parseType()}
	case token.MAP:
		sp.p--
		return sp.parseType()
	}
	sp.fail("unexpected token %s %q", t.tok, t.lit)
	return nil
}

func (sp *specParser) parsePostfix(e ast.Expr) ast.Expr {
	for {
		t := sp.peek()
		switch t.tok {
		case token.PERIOD:
			sp.next()
			if sp.peek().tok == token.LPAREN {
				// type assertion x.(T)
				sp.next()
				typ := sp.parseType()
				sp.expect(token.RPAREN)
				e = &ast.TypeAssertExpr{X: e, Type: typ}
				continue
			}
			sel := sp.expect(token.IDENT)
			e = &ast.SelectorExpr{X: e, Sel: ast.NewIdent(sel.lit)}
		case token.LPAREN:
			sp.next()
			var args []ast.Expr
			for sp.peek().tok != token.RPAREN {
				args = append(args, sp.parseImplies())
				if sp.peek().tok == token.COMMA {
					sp.next()
				}
			}
			sp.expect(token.RPAREN)
			e = &ast.CallExpr{Fun: e, Args: args}
		case token.LBRACK:
			sp.next()
			var lo, hi ast.Expr
			if sp.peek().tok != token.COLON {
				lo = sp.parseImplies()
			}
			if sp.peek().tok == token.COLON {
				sp.next()
				if sp.peek().tok != token.RBRACK {
					hi = sp.parseImplies()
				}
				sp.expect(token.RBRACK)
				e = &ast.SliceExpr{X: e, Low: lo, High: hi}
			} else {
				sp.expect(token.RBRACK)
				e = &ast.IndexExpr{X: e, Index: lo}
			}
		default:
			return e
		}
	}
}
