package main

import (
	"fmt"
	"go/ast"
	"go/token"
	"go/types"
	"strings"
)

// default dropped callees: logging, tracing, locking, metrics, wait groups.
var defaultDrop = map[string]bool{
	"sync.(*Mutex).Lock": true, "sync.(*Mutex).Unlock": true,
	"sync.(*RWMutex).Lock": true, "sync.(*RWMutex).Unlock": true,
	"sync.(*WaitGroup).Add": true, "sync.(*WaitGroup).Done": true, "sync.(*WaitGroup).Wait": true,
}

func isLogName(n string) bool {
	switch n {
	case "Logf", "Errorf", "Debugf", "Tracef":
		return true
	}
	return false
}

// calleeOf resolves the static callee of a call, if any.
func (p *Proc) calleeOf(ec *ectx, call *ast.CallExpr) (fn *types.Func, recv ast.Expr) {
	if ec.info == nil {
		return nil, nil
	}
	switch f := ast.Unparen(call.Fun).(type) {
	case *ast.Ident:
		if o, ok := ec.info.Uses[f].(*types.Func); ok {
			return o, nil
		}
	case *ast.SelectorExpr:
		if sel := ec.info.Selections[f]; sel != nil {
			if sel.Kind() == types.MethodVal {
				return sel.Obj().(*types.Func), f.X
			}
			return nil, nil
		}
		if o, ok := ec.info.Uses[f.Sel].(*types.Func); ok {
			return o, nil
		}
	}
	return nil, nil
}

func (p *Proc) isDropped(ec *ectx, call *ast.CallExpr) bool {
	fn, _ := p.calleeOf(ec, call)
	if fn == nil {
		return false
	}
	return p.droppedFn(fn)
}

func (p *Proc) droppedFn(fn *types.Func) bool {
	key := funcKeyOf(fn)
	if defaultDrop[key] || p.ctx.dirs.Drop[key] {
		return true
	}
	if fn.Pkg() != nil && fn.Pkg().Path() == modPath+"/logger" {
		p.ctx.notes["logging/tracing calls are dropped (treated as effect-free and non-panicking)"] = true
		return true
	}
	if isLogName(fn.Name()) {
		// logging helpers of the repository and the logger interface
		if fn.Pkg() != nil && strings.HasPrefix(fn.Pkg().Path(), modPath) {
			p.ctx.notes["logging/tracing calls are dropped (treated as effect-free and non-panicking)"] = true
			return true
		}
	}
	if fn.Pkg() != nil && (fn.Pkg().Path() == modPath+"/server/metrics" || strings.Contains(fn.Pkg().Path(), "openmetrics")) {
		p.ctx.notes["metrics calls are dropped (treated as effect-free and non-panicking)"] = true
		return true
	}
	return false
}

func (p *Proc) evalCall(ec *ectx, call *ast.CallExpr) Val {
	// spec-only forms
	if id, ok := call.Fun.(*ast.Ident); ok {
		if v, done := p.evalSpecCall(ec, id.Name, call); done {
			return v
		}
	}
	// conversion
	if ec.info != nil && !ec.spec {
		if tv, ok := ec.info.Types[call.Fun]; ok && tv.IsType() {
			v := p.eval(ec, call.Args[0])
			return p.conversion(ec, v, tv.Type, call)
		}
		if id, ok := ast.Unparen(call.Fun).(*ast.Ident); ok {
			if b, ok := ec.info.Uses[id].(*types.Builtin); ok {
				return p.evalBuiltin(ec, b.Name(), call)
			}
		}
	} else {
		// spec mode: conversions and builtins by name
		switch f := ast.Unparen(call.Fun).(type) {
		case *ast.Ident:
			switch f.Name {
			case "len", "cap":
				return p.evalBuiltin(ec, f.Name, call)
			}
			if obj := p.lookupName(ec, f.Name, ec.pos); obj != nil {
				if tn, ok := obj.(*types.TypeName); ok {
					return p.conversion(ec, p.eval(ec, call.Args[0]), tn.Type(), call)
				}
				if fn, ok := obj.(*types.Func); ok {
					return p.specFuncCall(ec, fn, nil, call)
				}
			}
			// uninterpreted functions of lib specs: ufStr_x, ufInt_x, ufBool_x
			for pfx, t := range map[string]types.Type{"ufStr_": types.Typ[types.String], "ufInt_": types.Typ[types.Int], "ufBool_": types.Typ[types.Bool]} {
				if strings.HasPrefix(f.Name, pfx) {
					var sorts []string
					var ts []*Term
					for _, a := range call.Args {
						v := p.eval(ec, a)
						sorts = append(sorts, string(v.T.Sort))
						ts = append(ts, v.T)
					}
					rs := p.ctx.sortOf(t)
					p.ctx.declare("uf:"+f.Name, fmt.Sprintf("(declare-fun %s (%s) %s)", f.Name, strings.Join(sorts, " "), rs))
					return Val{T: App(f.Name, rs, ts...), Typ: t}
				}
			}
			p.failf(call, "%s: unknown function %s in specification", ec.where, f.Name)
		case *ast.SelectorExpr:
			if t := p.resolveType(ec, f); t != nil {
				return p.conversion(ec, p.eval(ec, call.Args[0]), t, call)
			}
			// pkg.Func or method call on a value
			if id, ok := f.X.(*ast.Ident); ok {
				if pn, ok := p.lookupName(ec, id.Name, ec.pos).(*types.PkgName); ok && (ec.st.bound == nil || ec.st.bound[id.Name].T == nil) {
					if fn, ok := pn.Imported().Scope().Lookup(f.Sel.Name).(*types.Func); ok {
						return p.specFuncCall(ec, fn, nil, call)
					}
					if d, ok := p.ctx.dirs.Defines[f.Sel.Name]; ok && d.PkgPath == pn.Imported().Path() {
						return p.evalDefine(ec, d, call)
					}
					p.failf(call, "%s: unknown function %s.%s", ec.where, id.Name, f.Sel.Name)
				}
			}
			recv := p.eval(ec, f.X)
			obj, _, _ := types.LookupFieldOrMethod(recv.Typ, true, ec.pkg, f.Sel.Name)
			if obj == nil {
				if nt := namedOf(recv.Typ); nt != nil && nt.Obj().Pkg() != nil {
					obj, _, _ = types.LookupFieldOrMethod(recv.Typ, true, nt.Obj().Pkg(), f.Sel.Name)
				}
			}
			if fn, ok := obj.(*types.Func); ok {
				return p.specFuncCall(ec, fn, &recv, call)
			}
			p.failf(call, "%s: unknown method %s", ec.where, f.Sel.Name)
		case *ast.ArrayType:
			if t := p.resolveType(ec, f); t != nil {
				return p.conversion(ec, p.eval(ec, call.Args[0]), t, call)
			}
		}
		p.failf(call, "%s: unsupported call in specification", ec.where)
	}
	fn, recvExpr := p.calleeOf(ec, call)
	if fn != nil {
		if p.droppedFn(fn) {
			p.mutexOp(ec, fn, recvExpr)
			return p.zeroResults(fn)
		}
		var recv *Val
		if recvExpr != nil {
			// boxed library accumulator with a pointer-receiver method: pass the cell's address
			if id, ok := ast.Unparen(recvExpr).(*ast.Ident); ok && ec.info != nil {
				if v, ok := ec.info.Uses[id].(*types.Var); ok && p.boxed[v] && isBuilderType(v.Type()) {
					if rs := fn.Type().(*types.Signature).Recv(); rs != nil && isPointer(rs.Type()) {
						if addr, ok := ec.st.vars[v]; ok {
							ptr := Val{T: addr, Typ: types.NewPointer(v.Type())}
							args := p.evalArgs(ec, fn.Type().(*types.Signature), call)
							return p.callFunc(ec, fn, &ptr, args, call)
						}
					}
				}
			}
			r := p.eval(ec, recvExpr)
			recv = &r
		}
		args := p.evalArgs(ec, fn.Type().(*types.Signature), call)
		// pointer-receiver method on an addressable value (x.M() means (&x).M()): the value is
		// put into a temporary cell, the call gets its address, and the cell is read back
		if recv != nil {
			if rs := fn.Type().(*types.Signature).Recv(); rs != nil && isPointer(rs.Type()) && !isPointer(recv.Typ) && !isIface(recv.Typ) && !isSyncType(recv.Typ) && !opaqueStruct(recv.Typ) {
				addr := p.alloc(ec.st, "tmpaddr")
				p.storeCell(ec, recv.Typ, addr, *recv)
				ptr := Val{T: addr, Typ: types.NewPointer(recv.Typ)}
				res := p.callFunc(ec, fn, &ptr, args, call)
				if !p.dead(ec.st) {
					nv := p.loadCell(ec, recv.Typ, addr)
					func() {
						defer func() {
							if r := recover(); r != nil {
								if _, ok := r.(verr); !ok {
									panic(r)
								}
							}
						}()
						p.assignTo(ec, recvExpr, nv)
					}()
				}
				return res
			}
		}
		return p.callFunc(ec, fn, recv, args, call)
	}
	// dynamic call of a function value
	fv := p.eval(ec, call.Fun)
	sig, ok := fv.Typ.Underlying().(*types.Signature)
	if !ok {
		p.failf(call, "call of non-function")
	}
	args := p.evalArgs(ec, sig, call)
	return p.callValue(ec, call.Fun, fv, sig, args, call)
}

func (p *Proc) zeroResults(fn *types.Func) Val {
	sig := fn.Type().(*types.Signature)
	return p.zeroTuple(sig.Results())
}

func (p *Proc) zeroTuple(res *types.Tuple) Val {
	switch res.Len() {
	case 0:
		return Val{}
	case 1:
		return Val{T: p.ctx.zeroOf(res.At(0).Type()), Typ: res.At(0).Type()}
	}
	var m []Val
	for i := 0; i < res.Len(); i++ {
		m = append(m, Val{T: p.ctx.zeroOf(res.At(i).Type()), Typ: res.At(i).Type()})
	}
	return Val{Multi: m}
}

func (p *Proc) evalArgs(ec *ectx, sig *types.Signature, call *ast.CallExpr) []Val {
	var args []Val
	if len(call.Args) == 1 && sig.Params().Len() > 1 {
		v := p.eval(ec, call.Args[0])
		if len(v.Multi) > 0 {
			for i, m := range v.Multi {
				args = append(args, Val{T: p.convert(ec, m, sig.Params().At(i).Type()), Typ: sig.Params().At(i).Type()})
			}
			return args
		}
	}
	np := sig.Params().Len()
	for i, a := range call.Args {
		v := p.eval(ec, a)
		var pt types.Type
		if sig.Variadic() && i >= np-1 {
			if call.Ellipsis.IsValid() {
				pt = sig.Params().At(np - 1).Type()
			} else {
				pt = sig.Params().At(np - 1).Type().(*types.Slice).Elem()
			}
		} else if i < np {
			pt = sig.Params().At(i).Type()
		}
		cv := Val{T: p.convert(ec, v, pt), Typ: pt, Closure: v.Closure, Fn: v.Fn}
		if cv.Closure == nil {
			if id, ok := ast.Unparen(a).(*ast.Ident); ok && ec.info != nil {
				if o, ok := ec.info.Uses[id].(*types.Var); ok {
					cv.Closure = p.closureOf[o]
				}
			}
		}
		args = append(args, cv)
	}
	return args
}

func (p *Proc) conversion(ec *ectx, v Val, to types.Type, n ast.Node) Val {
	if v.IsNil {
		return Val{T: p.ctx.zeroOf(to), Typ: to}
	}
	from := v.Typ
	ts := p.ctx.sortOf(to)
	if isIface(to) {
		return Val{T: p.convert(ec, v, to), Typ: to}
	}
	if v.T.Sort == ts {
		return Val{T: v.T, Typ: to}
	}
	switch {
	case ts == SStr && v.T.Sort == SSlice:
		// string(bytes): fresh string with the same contents
		s := p.freshConst("strconv", SStr)
		if sl, ok := from.Underlying().(*types.Slice); ok {
			h := p.sliceHeap(ec.st, sl.Elem())
			ec.st.assume(Eq(StrLen(s), SlLen(v.T)))
			ec.st.assume(T(fmt.Sprintf("(forall ((k!b Int)) (! (=> (and (<= 0 k!b) (< k!b (slen %s))) (= (sat %s k!b) (select (select %s (s_arr %s)) (+ (s_off %s) k!b)))) :pattern ((sat %s k!b))))", s.S, s.S, h.S, v.T.S, v.T.S, s.S), SBool))
		}
		return Val{T: s, Typ: to}
	case ts == SSlice && v.T.Sort == SStr:
		// []byte(string): fresh array with the same contents
		sl := to.Underlying().(*types.Slice)
		r := p.alloc(ec.st, "bytes")
		key := p.sliceHeapKey(sl.Elem())
		h := p.sliceHeap(ec.st, sl.Elem())
		inner := p.freshConst("bytes", ArrSort(SInt, p.ctx.sortOf(sl.Elem())))
		ec.st.assume(T(fmt.Sprintf("(forall ((k!b Int)) (! (=> (and (<= 0 k!b) (< k!b (slen %s))) (= (select %s k!b) (sat %s k!b))) :pattern ((select %s k!b))))", v.T.S, inner.S, v.T.S, inner.S), SBool))
		p.heapSet(ec.st, key, Store(h, r, inner))
		return Val{T: MkSlice(r, IntLit(0), StrLen(v.T), StrLen(v.T)), Typ: to}
	case ts == SInt && v.T.Sort == SBV8, ts == SBV8 && v.T.Sort == SInt:
		return Val{T: p.convert(ec, v, to), Typ: to}
	case ts == SStr && v.T.Sort == SInt:
		// string(rune)
		s := p.freshConst("runestr", SStr)
		ec.st.assume(Imp(And(Le(IntLit(0), v.T), Lt(v.T, IntLit(128))), And(Eq(StrLen(s), IntLit(1)), Eq(StrAt(s, IntLit(0)), v.T))))
		return Val{T: s, Typ: to}
	}
	// named struct to named struct with identical underlying type: field by field
	if fs, ok := from.Underlying().(*types.Struct); ok {
		if tstr, ok := to.Underlying().(*types.Struct); ok && types.Identical(fs, tstr) && !opaqueStruct(from) && !opaqueStruct(to) {
			fn, tn := p.ctx.structName(from), p.ctx.structName(to)
			p.ctx.structSort(from)
			p.ctx.structSort(to)
			var b strings.Builder
			fmt.Fprintf(&b, "(mk_%s", tn)
			for i := 0; i < fs.NumFields(); i++ {
				fmt.Fprintf(&b, " (%s_%s %s)", fn, fs.Field(i).Name(), v.T.S)
			}
			b.WriteString(")")
			if fs.NumFields() == 0 {
				return Val{T: T("mk_"+tn, ts), Typ: to}
			}
			return Val{T: T(b.String(), ts), Typ: to}
		}
	}
	p.failf(n, "unsupported conversion from %s to %s", from, to)
	return Val{}
}

// ---------------------------------------------------------------------------
// Builtins

func (p *Proc) evalBuiltin(ec *ectx, name string, call *ast.CallExpr) Val {
	intT := types.Typ[types.Int]
	switch name {
	case "len", "cap":
		v := p.eval(ec, call.Args[0])
		switch v.Typ.Underlying().(type) {
		case *types.Basic:
			return Val{T: StrLen(v.T), Typ: intT}
		case *types.Slice:
			if name == "len" {
				return Val{T: SlLen(v.T), Typ: intT}
			}
			return Val{T: SlCap(v.T), Typ: intT}
		case *types.Map:
			return Val{T: p.mapLen(ec, v), Typ: intT}
		case *types.Array:
			return Val{T: IntLit(v.Typ.Underlying().(*types.Array).Len()), Typ: intT}
		case *types.Chan:
			if name == "cap" {
				// the capacity a channel was made with (immutable; recorded by make)
				return Val{T: T(fmt.Sprintf("(chancap %s)", v.T.S), SInt), Typ: intT}
			}
			return Val{T: p.freshConst("chanlen", SInt), Typ: intT}
		}
		p.failf(call, "len/cap of %s", v.Typ)
	case "append":
		return p.evalAppend(ec, call)
	case "copy":
		return p.evalCopy(ec, call)
	case "delete":
		m := p.eval(ec, call.Args[0])
		mt := m.Typ.Underlying().(*types.Map)
		k := p.convert(ec, p.eval(ec, call.Args[1]), mt.Key())
		p.mapDelete(ec, m, k)
		return Val{}
	case "make":
		t := ec.info.TypeOf(call.Args[0])
		switch ut := t.Underlying().(type) {
		case *types.Map:
			for _, a := range call.Args[1:] {
				p.eval(ec, a)
			}
			return Val{T: p.makeMap(ec.st, ut), Typ: t}
		case *types.Slice:
			n := p.convert(ec, p.eval(ec, call.Args[1]), intT)
			c := n
			if len(call.Args) > 2 {
				c = p.convert(ec, p.eval(ec, call.Args[2]), intT)
			}
			p.boundsCheck(ec, "makecap", call, And(Le(IntLit(0), n), Le(n, c)))
			es := p.ctx.sortOf(ut.Elem())
			r := p.alloc(ec.st, "arr")
			key := p.sliceHeapKey(ut.Elem())
			h := p.sliceHeap(ec.st, ut.Elem())
			zero := T(fmt.Sprintf("((as const %s) %s)", ArrSort(SInt, es), p.ctx.zeroOf(ut.Elem()).S), ArrSort(SInt, es))
			p.heapSet(ec.st, key, Store(h, r, zero))
			return Val{T: MkSlice(r, IntLit(0), n, c), Typ: t}
		case *types.Chan:
			c := IntLit(0)
			for _, a := range call.Args[1:] {
				c = p.convert(ec, p.eval(ec, a), intT)
			}
			r := p.alloc(ec.st, "chan")
			ec.st.assume(Eq(T(fmt.Sprintf("(chancap %s)", r.S), SInt), c))
			return Val{T: r, Typ: t}
		}
		p.failf(call, "make of %s", t)
	case "new":
		t := ec.info.TypeOf(call.Args[0])
		r := p.alloc(ec.st, "new")
		if stt, ok := t.Underlying().(*types.Struct); ok && !opaqueStruct(t) {
			for i := 0; i < stt.NumFields(); i++ {
				f := stt.Field(i)
				if isSyncType(f.Type()) {
					continue
				}
				key := p.fieldHeapKey(t, f)
				p.heapSet(ec.st, key, Store(p.fieldHeap(ec.st, t, f), r, p.ctx.zeroOf(f.Type())))
			}
		} else if !opaqueStruct(t) {
			p.heapSet(ec.st, p.ptrHeapKey(t), Store(p.ptrHeap(ec.st, t), r, p.ctx.zeroOf(t)))
		}
		return Val{T: r, Typ: types.NewPointer(t)}
	case "panic":
		p.eval(ec, call.Args[0])
		p.oblige(ec.st, "panic-unreachable", p.obName("panic", call), nil, TFalse, p.where(call))
		p.kill(ec.st)
		return Val{}
	case "close":
		p.eval(ec, call.Args[0])
		return Val{}
	}
	p.failf(call, "unsupported builtin %s", name)
	return Val{}
}

func (p *Proc) evalAppend(ec *ectx, call *ast.CallExpr) Val {
	s := p.eval(ec, call.Args[0])
	var st *types.Slice
	if s.IsNil {
		st = ec.info.TypeOf(call).Underlying().(*types.Slice)
		s = Val{T: NilSlice, Typ: ec.info.TypeOf(call)}
	} else {
		st = s.Typ.Underlying().(*types.Slice)
	}
	es := p.ctx.sortOf(st.Elem())
	inner := ArrSort(SInt, es)
	key := p.sliceHeapKey(st.Elem())
	base := p.define(ec.st, "app", s.T)
	arr, off, ln, cp := SlArr(base), SlOff(base), SlLen(base), SlCap(base)
	if call.Ellipsis.IsValid() {
		// append(a, b...)
		b := p.eval(ec, call.Args[1])
		var blen *Term
		var srcAt func(k string) string
		h0 := p.sliceHeap(ec.st, st.Elem())
		if b.T.Sort == SStr {
			blen = StrLen(b.T)
			srcAt = func(k string) string { return fmt.Sprintf("(sat %s %s)", b.T.S, k) }
		} else {
			bb := p.define(ec.st, "appsrc", b.T)
			blen = SlLen(bb)
			srcAt = func(k string) string {
				return fmt.Sprintf("(select (select %s (s_arr %s)) (+ (s_off %s) %s))", h0.S, bb.S, bb.S, k)
			}
		}
		n := p.freshConst("appn", SInt)
		ec.st.assume(Eq(n, blen))
		fits := Le(Add(ln, n), cp)
		A := Sel(h0, arr)
		cfit := p.freshConst("appfit", inner)
		ec.st.assume(T(fmt.Sprintf("(forall ((j!a Int)) (! (= (select %s j!a) (ite (and (<= (+ %s %s) j!a) (< j!a (+ %s %s %s))) %s (select %s j!a))) :pattern ((select %s j!a))))",
			cfit.S, off.S, ln.S, off.S, ln.S, n.S, srcAt(fmt.Sprintf("(- j!a (+ %s %s))", off.S, ln.S)), A.S, cfit.S), SBool))
		r := p.alloc(ec.st, "arr")
		cnew := p.freshConst("appnew", inner)
		ec.st.assume(T(fmt.Sprintf("(forall ((j!a Int)) (! (=> (and (<= 0 j!a) (< j!a (+ %s %s))) (= (select %s j!a) (ite (< j!a %s) (select %s (+ %s j!a)) %s))) :pattern ((select %s j!a))))",
			ln.S, n.S, cnew.S, ln.S, A.S, off.S, srcAt(fmt.Sprintf("(- j!a %s)", ln.S)), cnew.S), SBool))
		ncap := p.freshConst("appcap", SInt)
		ec.st.assume(Ge(ncap, Add(ln, n)))
		// appending nothing to a nil slice keeps it nil
		keep := And(Eq(n, IntLit(0)))
		h := p.sliceHeap(ec.st, st.Elem())
		p.heapSet(ec.st, key, p.defineIte(ec.st, "apph", keep, h, Ite(fits, Store(h, arr, cfit), Store(h, r, cnew))))
		res := Ite(keep, base, Ite(fits, MkSlice(arr, off, Add(ln, n), cp), MkSlice(r, IntLit(0), Add(ln, n), ncap)))
		return Val{T: p.define(ec.st, "appres", res), Typ: s.Typ}
	}
	cur := base
	for _, a := range call.Args[1:] {
		v := p.convert(ec, p.eval(ec, a), st.Elem())
		arr, off, ln, cp = SlArr(cur), SlOff(cur), SlLen(cur), SlCap(cur)
		h := p.sliceHeap(ec.st, st.Elem())
		fits := Lt(ln, cp)
		A := Sel(h, arr)
		cfit := Store(A, Add(off, ln), v)
		r := p.alloc(ec.st, "arr")
		cnew := p.freshConst("appnew", inner)
		ec.st.assume(T(fmt.Sprintf("(forall ((j!a Int)) (! (=> (and (<= 0 j!a) (< j!a %s)) (= (select %s j!a) (select %s (+ %s j!a)))) :pattern ((select %s j!a))))",
			ln.S, cnew.S, A.S, off.S, cnew.S), SBool))
		ec.st.assume(Eq(Sel(cnew, ln), v))
		ncap := p.freshConst("appcap", SInt)
		ec.st.assume(Gt(ncap, ln))
		p.heapSet(ec.st, key, p.defineIte(ec.st, "apph", fits, Store(h, arr, cfit), Store(h, r, cnew)))
		res := Ite(fits, MkSlice(arr, off, Add(ln, IntLit(1)), cp), MkSlice(r, IntLit(0), Add(ln, IntLit(1)), ncap))
		cur = p.freshConst("appres", SSlice)
		ec.st.assume(Eq(cur, res))
	}
	return Val{T: cur, Typ: s.Typ}
}

func (p *Proc) evalCopy(ec *ectx, call *ast.CallExpr) Val {
	dst := p.eval(ec, call.Args[0])
	src := p.eval(ec, call.Args[1])
	st := dst.Typ.Underlying().(*types.Slice)
	es := p.ctx.sortOf(st.Elem())
	inner := ArrSort(SInt, es)
	key := p.sliceHeapKey(st.Elem())
	h := p.sliceHeap(ec.st, st.Elem())
	d := p.define(ec.st, "cpd", dst.T)
	var slen *Term
	var srcAt func(k string) string
	if src.T.Sort == SStr {
		slen = StrLen(src.T)
		srcAt = func(k string) string { return fmt.Sprintf("(sat %s %s)", src.T.S, k) }
	} else {
		s := p.define(ec.st, "cps", src.T)
		slen = SlLen(s)
		srcAt = func(k string) string {
			return fmt.Sprintf("(select (select %s (s_arr %s)) (+ (s_off %s) %s))", h.S, s.S, s.S, k)
		}
	}
	n := p.freshConst("cpn", SInt)
	ec.st.assume(Eq(n, Ite(Lt(SlLen(d), slen), SlLen(d), slen)))
	D := Sel(h, SlArr(d))
	c := p.freshConst("cparr", inner)
	doff := SlOff(d)
	ec.st.assume(T(fmt.Sprintf("(forall ((j!c Int)) (! (= (select %s j!c) (ite (and (<= %s j!c) (< j!c (+ %s %s))) %s (select %s j!c))) :pattern ((select %s j!c))))",
		c.S, doff.S, doff.S, n.S, srcAt(fmt.Sprintf("(- j!c %s)", doff.S)), D.S, c.S), SBool))
	p.heapSet(ec.st, key, p.defineIte(ec.st, "cph", Gt(n, IntLit(0)), Store(h, SlArr(d), c), h))
	return Val{T: n, Typ: types.Typ[types.Int]}
}

// ---------------------------------------------------------------------------
// Static calls: contract, lib spec, inline.

func (p *Proc) contractFor(fn *types.Func) (*Contract, *FuncInfo) {
	key := funcKeyOf(fn)
	fi := p.ctx.funcs[key]
	if ct, ok := p.ctx.contracts[key]; ok {
		return ct, fi
	}
	return nil, fi
}

func (p *Proc) libFor(fn *types.Func) *Contract {
	key := funcKeyOf(fn)
	// lib names use short form: strings.IndexByte, (*bytes.Buffer).Write -> bytes.(*Buffer).Write
	if ct, ok := p.ctx.libs[strings.TrimPrefix(key, ".")]; ok {
		return ct
	}
	return nil
}

// siteAsserts checks `assert callee#k: expr` clauses of the current procedure at a call site.
func (p *Proc) siteAsserts(ec *ectx, recv *Val, args []Val, call *ast.CallExpr) {
	fr := p.cur()
	if fr.contract == nil || ec.spec {
		return
	}
	var site string
	for _, cl := range fr.contract.Clauses {
		if cl.Kind != "assert" {
			continue
		}
		if site == "" {
			site = fmt.Sprintf("%s#%d", calleeText(call), p.callOrdinal(call))
		}
		// "callee#*" binds to every call site of that callee text
		if cl.Param != site && cl.Param != calleeText(call)+"#*" {
			continue
		}
		cec := p.specEc(ec.st, call.Pos())
		cec.where = cl.Where
		cec.extra = map[string]Val{}
		for i, a := range args {
			cec.extra[fmt.Sprintf("arg%d", i)] = a
		}
		if recv != nil {
			cec.extra["recv"] = *recv
		}
		g := p.eval(cec, cl.Expr)
		p.assertFired[cl] = true
		p.oblige(ec.st, "callsite.assert", fmt.Sprintf("%scallsite[%s].assert", fr.prefix, site), cl.Tags, g.T, cl.Where)
		ec.st.assume(g.T)
	}
}

func (p *Proc) callFunc(ec *ectx, fn *types.Func, recv *Val, args []Val, call *ast.CallExpr) Val {
	sig := fn.Type().(*types.Signature)
	if !p.inDevirt {
		p.siteAsserts(ec, recv, args, call)
	}
	if funcKeyOf(fn) == "encoding/json.Unmarshal" && len(call.Args) == 2 {
		// the decoder may write anything well typed into the object its second argument points to
		pt := ec.info.TypeOf(call.Args[1])
		if _, ok := pt.Underlying().(*types.Pointer); ok {
			ptr := p.eval(ec, call.Args[1])
			p.havocPointee(ec.st, ptr)
			p.ctx.notes["trusted contract: encoding/json.Unmarshal (on return the destination object holds arbitrary well-typed values; err arbitrary)"] = true
			rt := sig.Results().At(0).Type()
			e := p.freshConst("jsonerr", p.ctx.sortOf(rt))
			// errors returned by the decoder are never nil pointers wrapped in an interface
			ec.st.assume(Or(Not(IsIfacePtr(e)), Neq(IPtr(e), IntLit(0))))
			return Val{T: e, Typ: rt}
		}
	}
	// interface method: devirtualise when a single implementation is declared
	if recv != nil && isIface(recv.Typ) {
		if nt := namedOf(recv.Typ); nt != nil && nt.Obj().Pkg() != nil {
			ikey := nt.Obj().Pkg().Path() + "." + nt.Obj().Name()
			if impl, ok := p.ctx.dirs.Devirt[ikey]; ok {
				if m, r := p.devirtualize(ec, *recv, impl, fn.Name(), call); m != nil {
					p.inDevirt = true
					defer func() { p.inDevirt = false }()
					return p.callFunc(ec, m, &r, args, call)
				}
			}
		}
	}
	ct, fi := p.contractFor(fn)
	if ct != nil && !ct.Inline {
		return p.callModular(ec, ct, fi, fn, sig, recv, args, call)
	}
	if lib := p.libFor(fn); lib != nil {
		return p.callModular(ec, lib, nil, fn, sig, recv, args, call)
	}
	if fi != nil && fi.Decl != nil && fi.Decl.Body != nil {
		return p.callInline(ec, fi, fn, sig, recv, args, call)
	}
	p.failf(call, "call to %s: no contract, lib spec or body available", funcKeyOf(fn))
	return Val{}
}

func (p *Proc) devirtualize(ec *ectx, recv Val, impl string, method string, n ast.Node) (*types.Func, Val) {
	i := strings.LastIndex(impl, ".")
	tp := p.ctx.allPkgs[impl[:i]]
	if tp == nil {
		return nil, Val{}
	}
	tn, ok := tp.Scope().Lookup(impl[i+1:]).(*types.TypeName)
	if !ok {
		return nil, Val{}
	}
	pt := types.NewPointer(tn.Type())
	obj, _, _ := types.LookupFieldOrMethod(pt, false, tp, method)
	m, ok := obj.(*types.Func)
	if !ok {
		return nil, Val{}
	}
	tag := IntLit(int64(p.ctx.typeTag(pt)))
	// the dynamic type is assumed to be the declared implementation (or nil, which panics)
	if !ec.spec {
		g := Neq(recv.T, NilIface)
		p.oblige(ec.st, "nilderef", p.obName("nilderef", n), nil, g, p.where(n))
		ec.st.assume(g)
	}
	ec.st.assume(And(IsIfacePtr(recv.T), Eq(ITag(recv.T), tag)))
	p.ctx.notes[fmt.Sprintf("interface %s is implemented only by *%s in the gateway (devirtualised)", recv.Typ, impl[i+1:])] = true
	return m, Val{T: IPtr(recv.T), Typ: pt}
}

// bindParams maps parameter names of a callee to argument values.
func (p *Proc) bindParams(ct *Contract, fi *FuncInfo, sig *types.Signature, recv *Val, args []Val) map[string]Val {
	extra := map[string]Val{}
	if ct != nil && ct.Kind == "lib" {
		names := ct.Params
		i := 0
		if recv != nil && len(names) > 0 {
			extra[names[0]] = *recv
			i = 1
		}
		for j, a := range args {
			if i+j < len(names) {
				extra[names[i+j]] = a
			}
		}
		return extra
	}
	if recv != nil {
		name := ""
		if fi != nil && fi.Decl != nil && fi.Decl.Recv != nil && len(fi.Decl.Recv.List[0].Names) > 0 {
			name = fi.Decl.Recv.List[0].Names[0].Name
		} else if sig.Recv() != nil {
			name = sig.Recv().Name()
		}
		if name == "" || name == "_" {
			name = "recv"
		}
		extra[name] = *recv
		extra["recv"] = *recv
	}
	// variadic packing is not modelled for contract calls
	for i := 0; i < sig.Params().Len() && i < len(args); i++ {
		n := sig.Params().At(i).Name()
		if n == "" || n == "_" {
			n = fmt.Sprintf("arg%d", i)
		}
		extra[n] = args[i]
	}
	return extra
}

func (p *Proc) contractEc(st *State, ct *Contract, fi *FuncInfo, fn *types.Func, extra map[string]Val) *ectx {
	ec := &ectx{st: st, spec: true, extra: extra}
	if fi != nil {
		ec.pkg = fi.Pkg.Types
		if fi.Decl != nil {
			ec.scope = fi.Pkg.TypesInfo.Scopes[fi.Decl.Type]
			ec.pos = fi.Decl.Body.Rbrace
		} else {
			ec.scope = fi.Pkg.TypesInfo.Scopes[fi.Lit.Type]
			ec.pos = fi.Lit.Body.Rbrace
		}
	} else if ct.PkgPath != "" {
		if pk := p.ctx.pkgs[ct.PkgPath]; pk != nil {
			ec.pkg = pk.Types
			if sf := p.ctx.specFiles[ct.PkgPath]; sf != nil {
				ec.scope = pk.TypesInfo.Scopes[sf]
			}
		}
	} else if fn != nil && fn.Pkg() != nil {
		ec.pkg = fn.Pkg()
	}
	return ec
}

func (p *Proc) callModular(ec *ectx, ct *Contract, fi *FuncInfo, fn *types.Func, sig *types.Signature, recv *Val, args []Val, call *ast.CallExpr) Val {
	ct.Used = true
	st := ec.st
	ck := "G:$calls:" + fn.Name()
	p.heapSet(st, ck, Add(p.heapGet(st, ck, SInt), IntLit(1)))
	if nt := namedOf(recvTypeOf(sig)); nt != nil {
		ck2 := "G:$calls:" + nt.Obj().Name() + "." + fn.Name()
		p.heapSet(st, ck2, Add(p.heapGet(st, ck2, SInt), IntLit(1)))
	}
	extra := p.bindParams(ct, fi, sig, recv, args)
	cname := calleeText(call)
	ord := p.callOrdinal(call)
	site := fmt.Sprintf("%scallsite[%s#%d]", p.cur().prefix, cname, ord)
	if ct.Trusted {
		p.ctx.notes["trusted contract: "+ct.Name] = true
	}
	// preconditions
	for i, cl := range ct.ByKind("requires") {
		cec := p.contractEc(st, ct, fi, fn, extra)
		cec.where = cl.Where
		cec.atCallSite = true
		g := p.eval(cec, cl.Expr)
		p.oblige(st, "callsite.pre", fmt.Sprintf("%s.pre[%d]", site, i+1), cl.Tags, g.T, p.where(call))
		st.assume(g.T)
	}
	// receiver nil check for pointer receivers is the callee's business (requires)
	pre := st.clone()
	// callback accounting: closures handed to continuation parameters
	p.handOver(ec, ct, fi, sig, args, call)
	// frame
	p.applyAssigns(st, pre, ct, fi, fn, extra, call)
	// a function value handed to a parameter that is not declared `defers` may have run before
	// the callee returned: its effects happened, too
	p.syncClosureEffects(ec, ct, sig, args, call)
	// results
	var results []Val
	for i := 0; i < sig.Results().Len(); i++ {
		rt := sig.Results().At(i).Type()
		v := Val{T: p.freshConst("ret_"+fn.Name(), p.ctx.sortOf(rt)), Typ: rt}
		p.wfAssume(st, v)
		results = append(results, v)
	}
	// named results of the callee are visible to its ensures
	for i := 0; i < sig.Results().Len(); i++ {
		if n := sig.Results().At(i).Name(); n != "" && n != "_" {
			extra[n] = results[i]
		}
	}
	if ct.Kind == "lib" {
		for i, n := range ct.Results {
			if i < len(results) {
				extra[n] = results[i]
			}
		}
	}
	for _, cl := range append(append([]*Clause{}, ct.ByKind("ensures")...), ct.ByKind("defines")...) {
		cec := p.contractEc(st, ct, fi, fn, extra)
		cec.where = cl.Where
		cec.results = results
		cec.old = pre
		cec.atCallSite = true
		g := p.eval(cec, cl.Expr)
		st.assume(g.T)
		if cl.Kind == "defines" {
			p.ctx.notes["definitional clause of "+ct.Name+" (names its result by an uninterpreted function; assumed, not proved): "+cl.Text] = true
		}
	}
	// consistency probe: assuming the callee's postconditions must not make a reachable path
	// unreachable (a contradictory contract would make everything after the call vacuously true)
	if len(ct.ByKind("ensures")) > 0 {
		p.callProbes = append(p.callProbes, &Obligation{Name: p.fi.Name + ":consistency." + site, Kind: "consistency", Proc: p.fi.Name,
			PC: append([]*Term(nil), st.pc...), PrePC: append([]*Term(nil), pre.pc...), Goal: TFalse, Decls: &p.decls, ExpectSat: true, Where: p.where(call)})
	}
	switch len(results) {
	case 0:
		return Val{}
	case 1:
		return results[0]
	}
	return Val{Multi: results}
}

func calleeText(call *ast.CallExpr) string {
	switch f := ast.Unparen(call.Fun).(type) {
	case *ast.Ident:
		return f.Name
	case *ast.SelectorExpr:
		return exprText(f.X) + "." + f.Sel.Name
	}
	return "call"
}

func exprText(e ast.Expr) string {
	switch x := e.(type) {
	case *ast.Ident:
		return x.Name
	case *ast.SelectorExpr:
		return exprText(x.X) + "." + x.Sel.Name
	case *ast.CallExpr:
		return exprText(x.Fun) + "()"
	case *ast.ParenExpr:
		return exprText(x.X)
	case *ast.StarExpr:
		return "*" + exprText(x.X)
	case *ast.IndexExpr:
		return exprText(x.X) + "[]"
	}
	return "_"
}

// callInline executes the callee body in the caller's state.
func (p *Proc) callInline(ec *ectx, fi *FuncInfo, fn *types.Func, sig *types.Signature, recv *Val, args []Val, call *ast.CallExpr) Val {
	if len(p.frames) > 6 {
		p.failf(call, "inlining too deep at %s (needs a contract)", fi.Name)
	}
	for _, f := range p.frames {
		if f.fi == fi {
			p.failf(call, "recursive call of %s needs a contract", fi.Name)
		}
	}
	st := ec.st
	info := fi.Pkg.TypesInfo
	fr := &frame{fi: fi, info: info, pkg: fi.Pkg.Types, inline: true, deferBase: len(st.defers),
		prefix: p.cur().prefix + "inl(" + fi.Name + ").", contract: p.ctx.contracts[fi.Key]}
	p.ctx.notes["helper functions without a contract are inlined at their call sites"] = true
	// bind receiver and parameters
	saved := map[types.Object]*Term{}
	bind := func(id *ast.Ident, v Val) {
		if id == nil || id.Name == "_" {
			return
		}
		obj := info.Defs[id]
		if obj == nil {
			return
		}
		if old, ok := st.vars[obj]; ok {
			saved[obj] = old
		}
		if p.boxedIn(fi)[obj.(*types.Var)] {
			p.failf(call, "inlined callee %s takes the address of a parameter", fi.Name)
		}
		st.vars[obj] = p.convert(ec, v, obj.Type())
		if v.Closure != nil {
			p.closureOf[obj] = v.Closure
		}
	}
	if recv != nil && fi.Decl.Recv != nil && len(fi.Decl.Recv.List[0].Names) > 0 {
		bind(fi.Decl.Recv.List[0].Names[0], *recv)
	}
	ai := 0
	for _, fld := range fi.Decl.Type.Params.List {
		for _, nm := range fld.Names {
			if ai < len(args) {
				if sig.Variadic() && ai == sig.Params().Len()-1 && !call.Ellipsis.IsValid() {
					p.failf(call, "inlining variadic callee %s unsupported", fi.Name)
				}
				bind(nm, args[ai])
				// a callback of the caller passed on to an inlined callee keeps its identity
				if ai < len(call.Args) {
					if v := p.cbVar(ec, call.Args[ai]); v != nil {
						if o, ok := info.Defs[nm].(*types.Var); ok {
							p.cbAlias[o] = v
						}
					}
				}
			}
			ai++
		}
		if len(fld.Names) == 0 {
			ai++
		}
	}
	// results
	if fi.Decl.Type.Results != nil {
		ri := 0
		for _, fld := range fi.Decl.Type.Results.List {
			if len(fld.Names) == 0 {
				t := info.TypeOf(fld.Type)
				fr.resObjs = append(fr.resObjs, types.NewVar(token.NoPos, fi.Pkg.Types, fmt.Sprintf("$ret%d", ri), t))
				ri++
				continue
			}
			for _, nm := range fld.Names {
				obj := info.Defs[nm].(*types.Var)
				st.vars[obj] = p.ctx.zeroOf(obj.Type())
				fr.named = append(fr.named, obj)
				fr.resObjs = append(fr.resObjs, obj)
				ri++
			}
		}
	}
	p.frames = append(p.frames, fr)
	p.boxFrame(fi)
	f := p.execBlock([]*State{st}, fi.Decl.Body.List)
	for _, s := range f.norm {
		// falling off the end
		p.runDefers(s, fr)
		fr.rets = append(fr.rets, s)
	}
	p.frames = p.frames[:len(p.frames)-1]
	ms := p.mergeForce(fr.rets)
	if len(ms) == 0 {
		p.kill(st)
		return p.zeroTuple(sig.Results())
	}
	if len(ms) > 1 {
		p.failf(call, "cannot merge return states of inlined %s", fi.Name)
	}
	*st = *ms[0]
	var results []Val
	for _, ro := range fr.resObjs {
		results = append(results, Val{T: st.vars[ro], Typ: ro.Type()})
	}
	for o, t := range saved {
		st.vars[o] = t
	}
	switch len(results) {
	case 0:
		return Val{}
	case 1:
		return results[0]
	}
	return Val{Multi: results}
}

// execReturn handles return in the procedure itself or in an inlined frame.
func (p *Proc) execReturn(st *State, x *ast.ReturnStmt) {
	fr := p.cur()
	ec := p.ec(st)
	var vals []Val
	if len(x.Results) == 1 && len(fr.resObjs) > 1 {
		v := p.eval(ec, x.Results[0])
		vals = v.Multi
	} else {
		for _, r := range x.Results {
			vals = append(vals, p.eval(ec, r))
		}
	}
	if p.dead(st) {
		return
	}
	if len(x.Results) == 0 {
		for _, o := range fr.named {
			vals = append(vals, Val{T: st.vars[o], Typ: o.Type()})
		}
	}
	for i, ro := range fr.resObjs {
		if i < len(vals) {
			st.vars[ro] = p.convert(ec, vals[i], ro.Type())
		}
	}
	p.returnAsserts(st, x)
	p.runDefers(st, fr)
	if fr.inline {
		fr.rets = append(fr.rets, st)
		return
	}
	p.atExit(st, x)
}

// returnAsserts checks `assert return#k: expr` clauses: an assertion over the locals in scope at
// the k-th return statement of the procedure body (source order, function literals excluded).
func (p *Proc) returnAsserts(st *State, x *ast.ReturnStmt) {
	fr := p.cur()
	if fr.contract == nil || fr.inline {
		return
	}
	site := ""
	for _, cl := range fr.contract.Clauses {
		if cl.Kind != "assert" || !strings.HasPrefix(cl.Param, "return#") {
			continue
		}
		if site == "" {
			n, found := 0, 0
			ast.Inspect(fr.fi.Body(), func(nd ast.Node) bool {
				if _, ok := nd.(*ast.FuncLit); ok {
					return false
				}
				if r, ok := nd.(*ast.ReturnStmt); ok {
					n++
					if r == x {
						found = n
					}
				}
				return true
			})
			site = fmt.Sprintf("return#%d", found)
		}
		if cl.Param != site {
			continue
		}
		cec := p.specEc(st, x.Pos())
		cec.where = cl.Where
		g := p.eval(cec, cl.Expr)
		p.assertFired[cl] = true
		p.oblige(st, "callsite.assert", fmt.Sprintf("%s%s.assert", fr.prefix, site), cl.Tags, g.T, cl.Where)
	}
}

func (p *Proc) runDefers(st *State, fr *frame) {
	for len(st.defers) > fr.deferBase {
		d := st.defers[len(st.defers)-1]
		st.defers = st.defers[:len(st.defers)-1]
		p.eval(p.ec(st), d.call)
	}
}

func (p *Proc) execGo(st *State, x *ast.GoStmt) {
	ec := p.ec(st)
	fn, _ := p.calleeOf(ec, x.Call)
	if fn != nil {
		// spawned function: body verified separately (if under contract); arguments evaluated now
		for _, a := range x.Call.Args {
			p.eval(ec, a)
		}
		p.ctx.notes["go statements: the spawned call runs later under its own contract; only argument evaluation happens here"] = true
		cnt := p.heapGet(st, "G:$spawncount", SInt)
		p.heapSet(st, "G:$spawncount", Add(cnt, IntLit(1)))
		return
	}
	// go cb(...): a callback parameter invoked on another goroutine counts as an invocation;
	// any other function value is only recorded as spawned (it runs later, under its own contract)
	fv := p.eval(ec, x.Call.Fun)
	sig, ok := fv.Typ.Underlying().(*types.Signature)
	if !ok {
		p.failf(x, "go of non-function")
	}
	args := p.evalArgs(ec, sig, x.Call)
	if v := p.varOfExpr(ec, x.Call.Fun); v != nil && p.cbParams[v.Name()] == v {
		// on another goroutine: counted as the invocation, but not "before the function returns"
		p.asyncCall = true
		p.callValue(ec, x.Call.Fun, fv, sig, args, x.Call)
		p.asyncCall = false
		return
	}
	cnt := p.heapGet(st, "G:$spawncount", SInt)
	_ = p.heapGet(st, "G:$spawned", SInt)
	p.heapSet(st, "G:$spawncount", Add(cnt, IntLit(1)))
	p.heapSet(st, "G:$spawned", fv.T)
}

// havocPointee replaces the object a pointer refers to by arbitrary well-typed contents.
func (p *Proc) havocPointee(st *State, ptr Val) {
	elem, ok := deref(ptr.Typ)
	if !ok {
		return
	}
	if stt, ok := elem.Underlying().(*types.Struct); ok && !opaqueStruct(elem) {
		for i := 0; i < stt.NumFields(); i++ {
			f := stt.Field(i)
			if isSyncType(f.Type()) || p.ctx.isImmutable(elem, f) {
				continue
			}
			key := p.fieldHeapKey(elem, f)
			h := p.fieldHeap(st, elem, f)
			v := Val{T: p.freshConst("dec_"+f.Name(), p.ctx.sortOf(f.Type())), Typ: f.Type()}
			p.wfAssume(st, v)
			p.decodedFresh(st, v)
			if nt, ok := f.Type().(*types.Named); ok && nt.Obj().Name() == "RawMessage" && nt.Obj().Pkg() != nil && nt.Obj().Pkg().Path() == "encoding/json" {
				// a decoded raw message is absent (nil) or a complete, non-empty JSON value
				st.assume(Or(Eq(SlArr(v.T), IntLit(0)), Gt(SlLen(v.T), IntLit(0))))
				p.ctx.notes["trusted contract: encoding/json.Unmarshal stores nil or a non-empty value into json.RawMessage fields"] = true
			}
			p.heapSet(st, key, Store(h, ptr.T, v.T))
		}
		return
	}
	if opaqueStruct(elem) {
		return
	}
	key := p.ptrHeapKey(elem)
	v := Val{T: p.freshConst("dec", p.ctx.sortOf(elem)), Typ: elem}
	p.wfAssume(st, v)
	p.decodedFresh(st, v)
	p.heapSet(st, key, Store(p.ptrHeap(st, elem), ptr.T, v.T))
}

// decodedFresh: maps, pointers and backing arrays produced by the JSON decoder are newly
// allocated (or nil): they alias nothing that existed before the call.
func (p *Proc) decodedFresh(st *State, v Val) {
	var ref *Term
	switch v.Typ.Underlying().(type) {
	case *types.Map, *types.Pointer:
		ref = v.T
	case *types.Slice:
		ref = SlArr(v.T)
	default:
		return
	}
	p.ctx.notes["trusted contract: encoding/json.Unmarshal allocates the maps, pointers and arrays it stores (they alias nothing that existed before)"] = true
	al := p.heapGet(st, "AL:", ArrSort(SInt, SBool))
	// wfAssume already said "allocated now"; say "was not allocated before" through a new allocation map
	nal := p.freshConst("H_AL:", ArrSort(SInt, SBool))
	st.assume(T(fmt.Sprintf("(forall ((r!m Int)) (! (=> (select %s r!m) (select %s r!m)) :pattern ((select %s r!m))))", al.S, nal.S, nal.S), SBool))
	_ = nal
	st.assume(Or(Eq(ref, IntLit(0)), Not(Sel(p.entryAL(st), ref))))
}

// entryAL is the allocation map at procedure entry.
func (p *Proc) entryAL(st *State) *Term {
	if t, ok := p.heapEntry["AL:"]; ok {
		return t
	}
	return p.heapGet(p.entry, "AL:", ArrSort(SInt, SBool))
}

func recvTypeOf(sig *types.Signature) types.Type {
	if sig.Recv() == nil {
		return types.Typ[types.Invalid]
	}
	return sig.Recv().Type()
}

// mutexKey names the mutex a selector x.mu denotes, where x is a pointer to a struct (or a struct
// reached through one): the pair (object, field). nil if the expression has another shape.
func (p *Proc) mutexKey(ec *ectx, e ast.Expr) *Term {
	sel, ok := ast.Unparen(e).(*ast.SelectorExpr)
	if !ok {
		return nil
	}
	var info *types.Info
	if ec.info != nil {
		info = ec.info
	} else if pk := p.ctx.pkgs[ec.pkg.Path()]; pk != nil {
		info = pk.TypesInfo
	}
	base := p.eval(ec, sel.X)
	if base.T == nil || base.T.Sort != SInt {
		return nil
	}
	_ = info
	p.ctx.declare("fun:mu_addr", "(declare-fun mu_addr (Int Str) Int)\n(declare-fun mu_obj (Int) Int)\n(assert (forall ((r!m Int) (f!m Str)) (! (= (mu_obj (mu_addr r!m f!m)) r!m) :pattern ((mu_addr r!m f!m)))))")
	return T(fmt.Sprintf("(mu_addr %s %s)", base.T.S, p.ctx.strLit(sel.Sel.Name).S), SInt)
}

// mutexOp keeps the ghost count of held mutexes: Lock adds one, Unlock takes one away. Mutexes
// that are not fields of an object are not tracked. (Blocking, fairness and what other goroutines
// do are outside the model; the count only says which critical section a statement is in.)
func (p *Proc) mutexOp(ec *ectx, fn *types.Func, recvExpr ast.Expr) {
	if recvExpr == nil || ec.spec {
		return
	}
	d := int64(0)
	switch funcKeyOf(fn) {
	case "sync.(*Mutex).Lock", "sync.(*RWMutex).Lock":
		d = 1
	case "sync.(*Mutex).Unlock", "sync.(*RWMutex).Unlock":
		d = -1
	default:
		return
	}
	k := p.mutexKey(ec, recvExpr)
	if k == nil {
		return
	}
	p.ctx.notes["sync.Mutex Lock/Unlock only move a ghost count of held mutexes (held(x.mu)); blocking, fairness and what other goroutines do in between are outside the model; a callee is taken to release what it acquires"] = true
	h := p.heapGet(ec.st, "G:$held", ArrSort(SInt, SInt))
	p.heapSet(ec.st, "G:$held", Store(h, k, Add(Sel(h, k), IntLit(d))))
}
