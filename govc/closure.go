package main

import (
	"fmt"
	"go/ast"
	"go/token"
	"go/types"
	"strings"
)

// callbackClauses finds `callback NAME kind` clauses for a callback variable: in the
// procedure's own contract, then in the contracts of the enclosing procedures.
func (p *Proc) callbackClauses(name, kind string) []*Clause {
	var out []*Clause
	// clauses of the procedure itself and of the enclosing function declaration (clauses of
	// intermediate closures speak about their own invocations only)
	for fi := p.fi; fi != nil; fi = fi.Parent {
		if fi != p.fi && fi.Parent != nil {
			continue
		}
		ct := p.ctx.contracts[fi.Key]
		if ct == nil {
			continue
		}
		for _, cl := range ct.Clauses {
			if cl.Kind == kind && cl.Param == name {
				out = append(out, cl)
			}
		}
	}
	return out
}

// cbArgNames binds the parameter names of a func-typed variable to actual arguments.
func cbArgNames(sig *types.Signature, args []Val) map[string]Val {
	m := map[string]Val{}
	for i := 0; i < sig.Params().Len() && i < len(args); i++ {
		n := sig.Params().At(i).Name()
		if n != "" && n != "_" {
			m[n] = args[i]
		}
		m[fmt.Sprintf("arg%d", i)] = args[i]
	}
	return m
}

// callValue handles a call through a function value.
func (p *Proc) callValue(ec *ectx, funExpr ast.Expr, fv Val, sig *types.Signature, args []Val, call *ast.CallExpr) Val {
	st := ec.st
	p.siteAsserts(ec, nil, args, call)
	v := p.cbVar(ec, funExpr)
	if v != nil {
		name := v.Name()
		if p.fi.Lit == nil && p.contract != nil && defersParam(p.contract, name) && !p.asyncCall {
			p.oblige(st, "defers", fmt.Sprintf("%sdefers[%s#%d]", p.cur().prefix, name, p.callOrdinal(call)), nil, TFalse, p.where(call))
		}
		extra := cbArgNames(sig, args)
		site := fmt.Sprintf("%scb[%s#%d]", p.cur().prefix, name, p.callOrdinal(call))
		for i, cl := range p.callbackClauses(name, "cb.requires") {
			cec := p.specEc(st, call.Pos())
			cec.extra = extra
			cec.where = cl.Where
			g := p.eval(cec, cl.Expr)
			p.oblige(st, "callback.pre", fmt.Sprintf("%s.pre[%d]", site, i+1), cl.Tags, g.T, p.where(call))
			st.assume(g.T)
		}
		cnt := st.resolved[v]
		if cnt == nil {
			cnt = IntLit(0)
		}
		st.resolved[v] = Add(cnt, IntLit(1))
		pre := st.clone()
		// effects: by default a callback under contract changes no modelled state
		for _, cl := range p.callbackClauses(name, "cb.assigns") {
			if cl.Arg == "*" {
				p.havocAll(st)
				continue
			}
			for _, e := range cl.Exprs {
				cec := p.specEc(pre, call.Pos())
				cec.extra = extra
				for _, l := range p.evalLoc(cec, e) {
					old := p.heapGet(st, l.key, l.sort)
					if l.ref == nil {
						nh := p.havocHeap(st, l.key, l.sort)
						p.heapMonotone(st, l.key, old, nh)
					} else {
						_, es := elemSortOfArr(l.sort)
						p.heapSet(st, l.key, Store(old, l.ref, p.freshConst("hv", es)))
					}
				}
			}
		}
		p.ctx.notes["response callbacks passed in by callers do not modify gateway state unless their contract says so"] = true
		var results []Val
		for i := 0; i < sig.Results().Len(); i++ {
			rt := sig.Results().At(i).Type()
			r := Val{T: p.freshConst("cbret", p.ctx.sortOf(rt)), Typ: rt}
			p.wfAssume(st, r)
			results = append(results, r)
		}
		for _, cl := range p.callbackClauses(name, "cb.ensures") {
			cec := p.specEc(st, call.Pos())
			cec.extra = extra
			cec.results = results
			cec.old = pre
			st.assume(p.eval(cec, cl.Expr).T)
		}
		return tupleOf(results)
	}
	// unknown function value: anything may happen to the heap; the invocation is counted
	p.ctx.notes["calls through unknown function values havoc the heap"] = true
	inv := p.heapGet(st, "G:$invoked", SInt)
	preInv := st.clone()
	p.havocAll(st)
	p.heapSet(st, "G:$invoked", Add(inv, IntLit(1)))
	// rely: what any function value invoked by this procedure leaves intact (`invokes EXPR`
	// clauses: assumptions about the serialising context, listed in the evidence)
	if fr := p.cur(); fr.contract != nil {
		for _, cl := range fr.contract.ByKind("invokes") {
			cec := p.specEc(st, call.Pos())
			cec.old = preInv
			cec.where = cl.Where
			st.assume(p.eval(cec, cl.Expr).T)
			p.ctx.notes["rely assumed after every callback invoked by "+p.fi.Name+": "+cl.Text] = true
		}
	}
	var results []Val
	for i := 0; i < sig.Results().Len(); i++ {
		rt := sig.Results().At(i).Type()
		r := Val{T: p.freshConst("fvret", p.ctx.sortOf(rt)), Typ: rt}
		p.wfAssume(st, r)
		results = append(results, r)
	}
	return tupleOf(results)
}

func tupleOf(results []Val) Val {
	switch len(results) {
	case 0:
		return Val{}
	case 1:
		return results[0]
	}
	return Val{Multi: results}
}

// handOver: a callback (or a closure that resolves callbacks) is passed to a callee
// parameter whose contract promises to invoke it (`resolves P exactly-once`).
func (p *Proc) handOver(ec *ectx, ct *Contract, fi *FuncInfo, sig *types.Signature, args []Val, call *ast.CallExpr) {
	st := ec.st
	for i := 0; i < sig.Params().Len() && i < len(args); i++ {
		pt := sig.Params().At(i)
		if _, ok := pt.Type().Underlying().(*types.Signature); !ok {
			continue
		}
		mode := ""
		for _, cl := range ct.ByKind("resolves") {
			if cl.Param == pt.Name() {
				mode = cl.Arg
			}
		}
		if mode == "if-result" {
			p.ctx.notes["work handed to a connection's Enqueue runs exactly once unless the connection is disposing (the client is gone)"] = true
			mode = "exactly-once"
		}
		if mode != "exactly-once" {
			continue
		}
		a := args[i]
		if i < len(call.Args) {
			if v := p.cbVar(ec, call.Args[i]); v != nil && p.contract != nil && p.fi.Lit == nil && defersParam(p.contract, v.Name()) && !defersParam(ct, pt.Name()) {
				p.oblige(st, "defers", fmt.Sprintf("%sdefers[%s->%s]", p.cur().prefix, v.Name(), calleeText(call)), nil, TFalse, p.where(call))
			}
		}
		if a.Closure != nil {
			h := p.heapGet(st, "G:$handed", SInt)
			p.heapSet(st, "G:$handed", Add(h, IntLit(1)))
		}
		// the caller's own callback passed on directly
		if i < len(call.Args) {
			if v := p.cbVar(ec, call.Args[i]); v != nil {
				st.resolved[v] = Add(orZero(st.resolved[v]), IntLit(1))
				continue
			}
		}
		// a closure that itself resolves callbacks exactly once
		if a.Closure != nil {
			top := p.fi.root()
			ckey := fmt.Sprintf("%s#%d", top.Key, a.Closure.Ordinal)
			if cct := p.ctx.contracts[ckey]; cct != nil {
				for _, cl := range cct.ByKind("resolves") {
					if cl.Arg != "exactly-once" {
						continue
					}
					if v := p.cbParams[cl.Param]; v != nil {
						st.resolved[v] = Add(orZero(st.resolved[v]), IntLit(1))
					}
				}
			}
		}
	}
}

func orZero(t *Term) *Term {
	if t == nil {
		return IntLit(0)
	}
	return t
}

// onClosureCreated: the creating procedure proves the closure's requires clauses that
// only mention captured variables (evaluated at creation time).
func (p *Proc) onClosureCreated(ec *ectx, cv *ClosureVal) {
	top := p.fi.root()
	ckey := fmt.Sprintf("%s#%d", top.Key, cv.Ordinal)
	cct := p.ctx.contracts[ckey]
	if cct == nil {
		return
	}
	// `stable v`: the captured variable v is the closure's own from creation on - nothing in the
	// creating function assigns it afterwards, nor anywhere in a loop around the closure (a later
	// iteration would change what an earlier closure, run later, sees)
	for _, cl := range cct.ByKind("stable") {
		for _, name := range splitNames(cl.Text) {
			ok := false
			for _, fv := range freeVars(p.fi.Pkg.TypesInfo, cv.Lit) {
				if fv.Name() == name {
					ok = !p.assignedAround(fv, cv.Lit)
				}
			}
			g := TFalse
			if ok {
				g = TTrue
			}
			p.oblige(ec.st, "closure.pre", fmt.Sprintf("%sclosure#%d.stable[%s]", p.cur().prefix, cv.Ordinal, name), cl.Tags, g, cl.Where)
		}
	}
	for i, cl := range cct.ByKind("requires") {
		cec := p.specEc(ec.st, cv.Lit.Body.Lbrace)
		cec.where = cl.Where
		n0 := p.heapReads
		g := p.eval(cec, cl.Expr)
		if p.heapReads != n0 {
			p.failf(cv.Lit, "%s: closure requires may only mention captured variables and immutable fields (it is proved when the closure is created and assumed when it runs)", cl.Where)
		}
		p.oblige(ec.st, "closure.pre", fmt.Sprintf("%sclosure#%d.pre[%d]", p.cur().prefix, cv.Ordinal, i+1), cl.Tags, g.T, cl.Where)
	}
}

// closureEntry: a closure passed directly to a callee parameter may assume what that callee
// promises about the invocation (`callback P requires ...` clauses of the callee's contract,
// which are proved at every place the callee invokes P).
func (p *Proc) closureEntry(st *State) {
	fi := p.fi
	if fi.Lit == nil || fi.Parent == nil {
		return
	}
	parent := fi.Parent
	info := parent.Pkg.TypesInfo
	var site *ast.CallExpr
	argIdx := -1
	ast.Inspect(parent.Body(), func(n ast.Node) bool {
		if c, ok := n.(*ast.CallExpr); ok {
			for i, a := range c.Args {
				if ast.Unparen(a) == ast.Expr(fi.Lit) {
					site, argIdx = c, i
				}
			}
		}
		return site == nil
	})
	if site == nil {
		return
	}
	ec := &ectx{st: st, info: info, pkg: parent.Pkg.Types}
	fn, recvExpr := p.calleeOf(ec, site)
	if fn == nil {
		return
	}
	sig := fn.Type().(*types.Signature)
	// devirtualised interface methods use the implementation's contract
	key := funcKeyOf(fn)
	if sig.Recv() != nil && isIface(sig.Recv().Type()) {
		if nt := namedOf(sig.Recv().Type()); nt != nil && nt.Obj().Pkg() != nil {
			if impl, ok := p.ctx.dirs.Devirt[nt.Obj().Pkg().Path()+"."+nt.Obj().Name()]; ok {
				i := lastDot(impl)
				key = impl[:i] + ".(*" + impl[i+1:] + ")." + fn.Name()
			}
		}
	}
	ct := p.ctx.contracts[key]
	if ct == nil {
		if lib := p.ctx.libs[key]; lib != nil {
			ct = lib
		}
	}
	if ct == nil || argIdx >= sig.Params().Len() {
		return
	}
	cfi := p.ctx.funcs[key]
	pname := sig.Params().At(argIdx).Name()
	if cfi != nil && cfi.Obj != nil {
		pname = cfi.Obj.Type().(*types.Signature).Params().At(argIdx).Name()
	}
	cbsig, ok := sig.Params().At(argIdx).Type().Underlying().(*types.Signature)
	if !ok {
		return
	}
	var clauses []*Clause
	for _, cl := range ct.Clauses {
		if cl.Kind == "cb.requires" && cl.Param == pname {
			clauses = append(clauses, cl)
		}
	}
	if len(clauses) == 0 {
		return
	}
	// the closure's own parameters, by the callee's names for them and by position
	extra := map[string]Val{}
	i := 0
	for _, fld := range fi.Lit.Type.Params.List {
		names := fld.Names
		if len(names) == 0 {
			i++
			continue
		}
		for _, nm := range names {
			if o, ok := info.Defs[nm].(*types.Var); ok && o != nil {
				if t, ok := st.vars[o]; ok {
					v := Val{T: t, Typ: o.Type()}
					extra[fmt.Sprintf("arg%d", i)] = v
					if i < cbsig.Params().Len() {
						if n := cbsig.Params().At(i).Name(); n != "" && n != "_" {
							extra[n] = v
						}
					}
				}
			}
			i++
		}
	}
	// the callee's receiver and parameters: the call-site expressions, when they only mention
	// variables that are never reassigned in the enclosing procedure
	p.lenient = true
	defer func() { p.lenient = false }()
	bindExpr := func(name string, e ast.Expr) {
		if name == "" || name == "_" || e == nil || !p.finalExpr(parent, e) {
			return
		}
		func() {
			defer func() {
				if r := recover(); r != nil {
					if _, ok := r.(verr); !ok {
						panic(r)
					}
				}
			}()
			v := p.eval(&ectx{st: st, info: info, pkg: parent.Pkg.Types, spec: true}, e)
			if v.T != nil {
				extra[name] = v
			}
		}()
	}
	if recvExpr != nil && cfi != nil && cfi.Decl != nil && cfi.Decl.Recv != nil && len(cfi.Decl.Recv.List[0].Names) > 0 {
		bindExpr(cfi.Decl.Recv.List[0].Names[0].Name, recvExpr)
	}
	for j, a := range site.Args {
		if j == argIdx || j >= sig.Params().Len() {
			continue
		}
		n := sig.Params().At(j).Name()
		if cfi != nil && cfi.Obj != nil {
			n = cfi.Obj.Type().(*types.Signature).Params().At(j).Name()
		}
		bindExpr(n, a)
	}
	for _, cl := range clauses {
		func() {
			defer func() {
				if r := recover(); r != nil {
					if _, ok := r.(verr); !ok {
						panic(r)
					}
				}
			}()
			cec := p.contractEc(st, ct, cfi, fn, extra)
			cec.where = cl.Where
			g := p.eval(cec, cl.Expr)
			st.assume(g.T)
			p.ctx.notes["closures assume the callee's callback promise (callback P requires ...) of the function they are passed to"] = true
		}()
	}
}

func lastDot(s string) int {
	for i := len(s) - 1; i >= 0; i-- {
		if s[i] == '.' {
			return i
		}
	}
	return -1
}

// finalExpr: every variable mentioned by e is assigned at most once (its declaration) in the procedure.
func (p *Proc) finalExpr(fi *FuncInfo, e ast.Expr) bool {
	info := fi.Pkg.TypesInfo
	ok := true
	ast.Inspect(e, func(n ast.Node) bool {
		id, isID := n.(*ast.Ident)
		if !isID {
			return true
		}
		v, isVar := info.Uses[id].(*types.Var)
		if !isVar || v.IsField() || (v.Pkg() != nil && v.Parent() == v.Pkg().Scope()) {
			return true
		}
		if !finalVar(fi.root(), v) {
			ok = false
		}
		return true
	})
	return ok
}

func finalVar(root *FuncInfo, v *types.Var) bool {
	info := root.Pkg.TypesInfo
	assigns := 0
	ast.Inspect(root.Decl, func(n ast.Node) bool {
		switch x := n.(type) {
		case *ast.AssignStmt:
			for _, l := range x.Lhs {
				if id, ok := ast.Unparen(l).(*ast.Ident); ok {
					if info.Uses[id] == v {
						assigns++
					}
				}
			}
		case *ast.IncDecStmt:
			if id, ok := ast.Unparen(x.X).(*ast.Ident); ok && info.Uses[id] == v {
				assigns++
			}
		case *ast.UnaryExpr:
			if x.Op.String() == "&" {
				if id, ok := ast.Unparen(x.X).(*ast.Ident); ok && info.Uses[id] == v {
					assigns++
				}
			}
		}
		return true
	})
	return assigns == 0
}

func defersParam(ct *Contract, name string) bool {
	for _, cl := range ct.ByKind("defers") {
		for _, n := range splitNames(cl.Text) {
			if n == name {
				return true
			}
		}
	}
	return false
}

// syncClosureEffects accounts for callees that may invoke a passed closure before returning.
func (p *Proc) syncClosureEffects(ec *ectx, ct *Contract, sig *types.Signature, args []Val, call *ast.CallExpr) {
	st := ec.st
	for i := 0; i < sig.Params().Len() && i < len(args); i++ {
		pt := sig.Params().At(i)
		if _, ok := pt.Type().Underlying().(*types.Signature); !ok {
			continue
		}
		if defersParam(ct, pt.Name()) {
			continue
		}
		a := args[i]
		if i < len(call.Args) {
			if v := p.cbVar(ec, call.Args[i]); v != nil {
				continue // the caller's own callback: framed by its callback contract
			}
		}
		if a.IsNil || a.T.S == "0" {
			continue
		}
		if a.Closure == nil {
			p.havocAll(st)
			return
		}
		// a closure that may run before the callee returns must not invoke a callback that this
		// procedure promised to defer
		if p.fi.Lit == nil && p.contract != nil {
			for _, fv := range freeVars(p.fi.Pkg.TypesInfo, a.Closure.Lit) {
				if p.cbParams[fv.Name()] == fv && defersParam(p.contract, fv.Name()) {
					p.oblige(st, "defers", fmt.Sprintf("%sdefers[%s via closure#%d]", p.cur().prefix, fv.Name(), a.Closure.Ordinal), nil, TFalse, p.where(call))
				}
			}
		}
		top := p.fi.root()
		cct := p.ctx.contracts[fmt.Sprintf("%s#%d", top.Key, a.Closure.Ordinal)]
		if cct == nil || len(cct.ByKind("assigns")) == 0 {
			p.havocAll(st)
			return
		}
		// the closure's own frame, evaluated at the call site (captured variables are in scope)
		pre := st.clone()
		for _, cl := range cct.ByKind("assigns") {
			if cl.Arg == "*" {
				p.havocAll(st)
				return
			}
			for _, e := range cl.Exprs {
				cec := p.specEc(pre, a.Closure.Lit.Body.Lbrace)
				cec.where = cl.Where
				for _, l := range p.evalLoc(cec, e) {
					if strings.HasPrefix(l.key, "$pfx:") {
						p.havocPrefix(st, strings.TrimPrefix(l.key, "$pfx:"))
						continue
					}
					old := p.heapGet(st, l.key, l.sort)
					if l.ref == nil {
						nh := p.havocHeap(st, l.key, l.sort)
						p.heapMonotone(st, l.key, old, nh)
					} else {
						_, es := elemSortOfArr(l.sort)
						p.heapSet(st, l.key, Store(old, l.ref, p.freshConst("hv", es)))
					}
				}
			}
		}
	}
}

// assignedAround reports whether the enclosing function assigns v after the function literal, or
// anywhere inside a loop that encloses the literal (outside the literal itself).
func (p *Proc) assignedAround(v *types.Var, lit *ast.FuncLit) bool {
	info := p.fi.Pkg.TypesInfo
	root := p.fi.root()
	body := root.Body()
	if body == nil {
		return true
	}
	// loops enclosing the literal
	var loops []ast.Node
	ast.Inspect(body, func(n ast.Node) bool {
		if n == nil {
			return false
		}
		switch n.(type) {
		case *ast.ForStmt, *ast.RangeStmt:
			if n.Pos() <= lit.Pos() && lit.End() <= n.End() {
				loops = append(loops, n)
			}
		}
		return true
	})
	inScope := func(pos token.Pos) bool {
		if pos >= lit.Pos() && pos < lit.End() {
			return false
		}
		if pos >= lit.End() {
			return true
		}
		for _, l := range loops {
			if pos >= l.Pos() && pos < l.End() {
				return true
			}
		}
		return false
	}
	found := false
	isV := func(e ast.Expr) bool {
		id, ok := ast.Unparen(e).(*ast.Ident)
		if !ok {
			return false
		}
		if o, ok := info.Uses[id].(*types.Var); ok && o == v {
			return true
		}
		return false
	}
	ast.Inspect(body, func(n ast.Node) bool {
		switch x := n.(type) {
		case *ast.AssignStmt:
			if x.Tok == token.DEFINE {
				return true
			}
			for _, l := range x.Lhs {
				if isV(l) && inScope(x.Pos()) {
					found = true
				}
			}
		case *ast.IncDecStmt:
			if isV(x.X) && inScope(x.Pos()) {
				found = true
			}
		case *ast.RangeStmt:
			if x.Tok == token.ASSIGN && ((x.Key != nil && isV(x.Key)) || (x.Value != nil && isV(x.Value))) && inScope(x.Pos()) {
				found = true
			}
		}
		return true
	})
	return found
}
