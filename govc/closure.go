package main

import (
	"fmt"
	"go/ast"
	"go/types"
)

// callbackClauses finds `callback NAME kind` clauses for a callback variable: in the
// procedure's own contract, then in the contracts of the enclosing procedures.
func (p *Proc) callbackClauses(name, kind string) []*Clause {
	var out []*Clause
	for fi := p.fi; fi != nil; fi = fi.Parent {
		ct := p.ctx.contracts[fi.Key]
		if ct == nil {
			continue
		}
		for _, cl := range ct.Clauses {
			if cl.Kind == kind && cl.Param == name {
				out = append(out, cl)
			}
		}
		if len(out) > 0 {
			return out
		}
	}
	return out
}

// cbArgNames binds the parameter names of a func-typed variable to actual arguments.
func cbArgNames(sig *types.Signature, args []Val) map[string]Val {
	m := map[string]Val{}
	for i := 0; i < sig.Params().Len() && i < len(args); i++ {
		n := sig.Params().At(i).Name()
		if n != "" && n != "_" {
			m[n] = args[i]
		}
		m[fmt.Sprintf("arg%d", i)] = args[i]
	}
	return m
}

// callValue handles a call through a function value.
func (p *Proc) callValue(ec *ectx, funExpr ast.Expr, fv Val, sig *types.Signature, args []Val, call *ast.CallExpr) Val {
	st := ec.st
	v := p.varOfExpr(ec, funExpr)
	if v != nil && p.cbParams[v.Name()] == v {
		name := v.Name()
		extra := cbArgNames(sig, args)
		site := fmt.Sprintf("%scb[%s#%d]", p.cur().prefix, name, p.callOrdinal(call))
		for i, cl := range p.callbackClauses(name, "cb.requires") {
			cec := p.specEc(st, call.Pos())
			cec.extra = extra
			cec.where = cl.Where
			g := p.eval(cec, cl.Expr)
			p.oblige(st, "callback.pre", fmt.Sprintf("%s.pre[%d]", site, i+1), cl.Tags, g.T, p.where(call))
			st.assume(g.T)
		}
		cnt := st.resolved[v]
		if cnt == nil {
			cnt = IntLit(0)
		}
		st.resolved[v] = Add(cnt, IntLit(1))
		pre := st.clone()
		// effects: by default a callback under contract changes no modelled state
		for _, cl := range p.callbackClauses(name, "cb.assigns") {
			if cl.Arg == "*" {
				p.havocAll(st)
				continue
			}
			for _, e := range cl.Exprs {
				cec := p.specEc(pre, call.Pos())
				cec.extra = extra
				for _, l := range p.evalLoc(cec, e) {
					old := p.heapGet(st, l.key, l.sort)
					if l.ref == nil {
						nh := p.havocHeap(st, l.key, l.sort)
						p.heapMonotone(st, l.key, old, nh)
					} else {
						_, es := elemSortOfArr(l.sort)
						p.heapSet(st, l.key, Store(old, l.ref, p.freshConst("hv", es)))
					}
				}
			}
		}
		p.ctx.notes["response callbacks passed in by callers do not modify gateway state unless their contract says so"] = true
		var results []Val
		for i := 0; i < sig.Results().Len(); i++ {
			rt := sig.Results().At(i).Type()
			r := Val{T: p.freshConst("cbret", p.ctx.sortOf(rt)), Typ: rt}
			p.wfAssume(st, r)
			results = append(results, r)
		}
		for _, cl := range p.callbackClauses(name, "cb.ensures") {
			cec := p.specEc(st, call.Pos())
			cec.extra = extra
			cec.results = results
			cec.old = pre
			st.assume(p.eval(cec, cl.Expr).T)
		}
		return tupleOf(results)
	}
	// unknown function value: anything may happen
	p.ctx.notes["calls through unknown function values havoc the heap"] = true
	p.havocAll(st)
	var results []Val
	for i := 0; i < sig.Results().Len(); i++ {
		rt := sig.Results().At(i).Type()
		r := Val{T: p.freshConst("fvret", p.ctx.sortOf(rt)), Typ: rt}
		p.wfAssume(st, r)
		results = append(results, r)
	}
	return tupleOf(results)
}

func tupleOf(results []Val) Val {
	switch len(results) {
	case 0:
		return Val{}
	case 1:
		return results[0]
	}
	return Val{Multi: results}
}

// handOver: a callback (or a closure that resolves callbacks) is passed to a callee
// parameter whose contract promises to invoke it (`resolves P exactly-once`).
func (p *Proc) handOver(ec *ectx, ct *Contract, fi *FuncInfo, sig *types.Signature, args []Val, call *ast.CallExpr) {
	st := ec.st
	for i := 0; i < sig.Params().Len() && i < len(args); i++ {
		pt := sig.Params().At(i)
		if _, ok := pt.Type().Underlying().(*types.Signature); !ok {
			continue
		}
		mode := ""
		for _, cl := range ct.ByKind("resolves") {
			if cl.Param == pt.Name() {
				mode = cl.Arg
			}
		}
		if mode != "exactly-once" {
			continue
		}
		a := args[i]
		// the caller's own callback passed on directly
		if i < len(call.Args) {
			if v := p.varOfExpr(ec, call.Args[i]); v != nil && p.cbParams[v.Name()] == v {
				st.resolved[v] = Add(orZero(st.resolved[v]), IntLit(1))
				continue
			}
		}
		// a closure that itself resolves callbacks exactly once
		if a.Closure != nil {
			top := p.fi.root()
			ckey := fmt.Sprintf("%s#%d", top.Key, a.Closure.Ordinal)
			if cct := p.ctx.contracts[ckey]; cct != nil {
				for _, cl := range cct.ByKind("resolves") {
					if cl.Arg != "exactly-once" {
						continue
					}
					if v := p.cbParams[cl.Param]; v != nil {
						st.resolved[v] = Add(orZero(st.resolved[v]), IntLit(1))
					}
				}
			}
		}
	}
}

func orZero(t *Term) *Term {
	if t == nil {
		return IntLit(0)
	}
	return t
}

// onClosureCreated: the creating procedure proves the closure's requires clauses that
// only mention captured variables (evaluated at creation time).
func (p *Proc) onClosureCreated(ec *ectx, cv *ClosureVal) {
	top := p.fi.root()
	ckey := fmt.Sprintf("%s#%d", top.Key, cv.Ordinal)
	cct := p.ctx.contracts[ckey]
	if cct == nil {
		return
	}
	for i, cl := range cct.ByKind("requires") {
		cec := p.specEc(ec.st, cv.Lit.Body.Lbrace)
		cec.where = cl.Where
		g := p.eval(cec, cl.Expr)
		p.oblige(ec.st, "closure.pre", fmt.Sprintf("%sclosure#%d.pre[%d]", p.cur().prefix, cv.Ordinal, i+1), cl.Tags, g.T, cl.Where)
	}
}

// closureEntry: nothing beyond `requires` is assumed on closure entry for now.
func (p *Proc) closureEntry(st *State) {}
